# C12 -- time-zone conversion follows the zone file for every zone and instant
from .. import core
from ..core import Ob

H = 'C12_tz.c'
UNITS = ['lib/leaps.c']


def make_obs(ctx):
    obs = []
    ns = range(0, 9) if ctx.tier == 'thorough' else (0, 1, 2, 3, 5)
    for n in ns:
        uw = max(n, 4) + 3
        b = {'table': '%d transitions at arbitrary increasing instants in +-2^40, <= 4 types, offsets +-16h (all symbolic)' % n,
             'instant': 'any in +-2^41 from the first transition on'}
        obs.append(Ob('local:N%d' % n, H, 'h_local', {'N': n}, units=UNITS, unwind=uw, group='local',
                      bounds=b))
        obs.append(Ob('cache-step:N%d' % n, H, 'h_cache_step', {'N': n}, units=UNITS, unwind=uw, group='cache-step',
                      bounds=dict(b, prestate='cold, or the range of any earlier instant, or the before-first state')))
        obs.append(Ob('utc:N%d' % n, H, 'h_utc', {'N': n, 'SPACING': '"+ 4 * OFFMAX"'.strip('"')}, units=UNITS,
                      unwind=uw, group='utc', timeout=600,
                      bounds=dict(b, spacing='transitions more than 64h apart', loop='fixed-point loop bound %d by unwinding assertion' % uw)))
    obs.append(Ob('local:big300', H, 'h_local', {'N': 300, 'BIGTAB': 1}, units=UNITS, unwind=14, group='local-big',
                  unwindset=['mk_table.0:302', 'ref_k.0:302'], timeout=600,
                  bounds={'table': 'concrete 300 transitions half a year apart', 'instant': 'any'}))
    # the loader's part of the property (added after a missed seed): the table that the lookups see is the file's
    # table with transitions to the same type merged; harness shared with C19
    for (ntr, nty) in ([(3, 2)] if ctx.tier == 'quick' else [(1, 1), (2, 2), (3, 2), (3, 3), (4, 2), (5, 3)]):
        sz = 44 + 5 * ntr + 6 * nty
        obs.append(Ob('load:v1:ntr%d.nty%d' % (ntr, nty), 'C19_zif.c', 'h_zif_open',
                      {'SIZE': sz, 'MAGIC': 1, 'H1_NTR': ntr, 'H1_NTY': nty, 'H1_CHR': 0, 'H1_NLP': 0, 'H1_STD': 0, 'H1_GMT': 0, 'LOADCHK': 1},
                      units=UNITS, unwind=12, flags=['--max-field-sensitivity-array-size', '160'], group='load',
                      unwindset=['h_zif_open.0:%d' % (sz + 2), 'h_zif_open.1:%d' % (sz + 2)], timeout=600,
                      bounds={'image': 'TZif version 1, exactly %d bytes: %d transitions, %d types, every body byte symbolic' % (sz, ntr, nty)}))
    return obs


def run(tier, seed):
    return core.run_property(
        'C12', tier, seed, make_obs,
        level_note=('bounded model checking of lib/tzraw.c lookups over fully symbolic transition tables of 0..8 '
                    '(quick: 0,1,2,3,5) entries plus a concrete 300-entry table; oracle = linear scan'),
        assumptions=['table as loaded: strictly increasing instants, type indices < nty', 'zone files themselves: memory safety of the loader is C19; faithful loading is decided here for version 1 images of 3 transitions and 2 types (thorough: up to 5 transitions, 3 types)',
                     'local->UTC: tables whose transitions are more than 64h apart'],
        stubs=[])
