# C06 -- duration output conserves the total (refinement rule)
from .. import core
from ..core import Ob

H = 'C06_ddiff.c'
UNITS = ['lib/date-core.c', 'lib/time-core.c', 'lib/dt-core.c', 'lib/strops.c', 'lib/token.c', 'lib/leaps.c',
         'lib/dt-locale.c']


def make_obs(ctx):
    obs = []
    names = 'wdHMS'
    for fl in range(1, 32):
        tag = ''.join(names[i] for i in range(5) if fl >> i & 1)
        # 31 bits: three of the 31 unit sets ran past 900 s (64-bit divisions); 28 bits all finish
        db = 28 if ctx.tier == 'thorough' else 24
        obs.append(Ob('precalc-secs:%s' % tag, H, 'h_precalc_secs', {'FLAGS': fl, 'DBITS': db}, units=UNITS,
                      group='precalc-secs', timeout=900,
                      bounds={'duration': '|seconds| < 2^%d' % db, 'units requested': tag}))
    obs.append(Ob('totals', H, 'h_totals', {}, units=UNITS, group='totals', timeout=600,
                  bounds={'duration': '|count| < 2^40 of s, m or h'}))
    obs.append(Ob('precalc-tai', H, 'h_precalc_tai', {}, units=UNITS, group='precalc-tai', timeout=600,
                  bounds={'duration': '|UTC-naive seconds| < 2^24, 0..3 leap seconds in between, either order'}))
    obs.append(Ob('precalc-secs:S:wide', H, 'h_precalc_secs', {'FLAGS': 16, 'DBITS': 40}, units=UNITS, group='precalc-secs', timeout=900,
                  bounds={'duration': '|seconds| < 2^40', 'units requested': 'S'}))
    # windows of 2^20 s around the places where a 32-bit intermediate would wrap (2^31, 2^32 seconds; 2^31 and
    # 2^32 seconds' worth of days and weeks lie inside the calendar's 7.9e10 s span) and at the far end of the span
    # (added after a missed seed: the cascade above stops short of 2^31)
    bases = [(1 << 31) - (1 << 19), (1 << 32) - (1 << 19), 78700000000]
    if ctx.tier == 'thorough':
        bases += [(1 << 33) - (1 << 19), (1 << 34) - (1 << 19), (1 << 35) - (1 << 19), (1 << 36) - (1 << 19), 40000000000]
    for base in bases:
        for fl in ((3, 6, 17, 18, 31) if ctx.tier == 'quick' else range(1, 32)):
            tag = ''.join(names[i] for i in range(5) if fl >> i & 1)
            obs.append(Ob('precalc-secs:%s:@%d' % (tag, base), H, 'h_precalc_secs', {'FLAGS': fl, 'DBITS': 20, 'DBASE': '%dLL' % base},
                          units=UNITS, group='precalc-secs-window', timeout=900,
                          bounds={'duration': '%d <= |seconds| < %d + 2^20' % (base, base), 'units requested': tag}))
    for fl in range(0, 8):
        tag = ''.join('Yqm'[i] for i in range(3) if fl >> i & 1) or '-'
        obs.append(Ob('precalc-ymd:%s' % tag, H, 'h_precalc_ymd', {'FLAGS': fl}, units=UNITS, group='precalc-ymd',
                      bounds={'duration': 'years <= 2494, months <= 11, days <= 30, time < 1 day, either sign',
                              'units requested': tag + ' d H M S'}))
    vmax = 100000 if ctx.tier == 'quick' else 10000000
    obs.append(Ob('ltostr', H, 'h_ltostr', {'VMAX': vmax}, units=UNITS, unwind=12, group='ltostr', timeout=900,
                  solver='kissat' if ctx.tier == 'thorough' else 'cadical',
                  bounds={'value': '|v| < %d' % vmax, 'width': '-1, 2, 3, 9', 'padding': 'none, zero, space, omit'}))
    # the total that the cascade splits: for date-times the record's seconds are the difference of the two
    # instants' Unix seconds, for any two instants of the range (harness shared with C11)
    from .C11 import UNITS as TUNITS
    obs.append(Ob('total-seconds:any-pair', 'C11_time.c', 'h_dtdiff', dict(KMAX=911280), units=TUNITS, group='total-seconds',
                  timeout=600, remove_bodies=core.prune_cals(['daisy']),
                  bounds={'first': 'every second of every day 1601..4095 (day-number held)', 'second': 'any other second of the range'}))
    return obs


def run(tier, seed):
    return core.run_property(
        'C06', tier, seed, make_obs,
        level_note=('bounded model checking of src/ddiff.c: the unit cascade for every subset of w d H M S on symbolic '
                    'second counts, year/quarter/month splits of symbolic ymd durations, and the number printer'),
        assumptions=['the duration record is what dt_dtdiff produces for the format (C05/C11 check dt_dtdiff itself)',
                     'format -> unit set (determine_durfmt) and the driver loop of __strfdtdur: driver memory safety is C10',
                     'ltostr values bounded as stated (digit loops stall SAT beyond)'],
        stubs=[])
