# C09 -- parsing inverts formatting for every date/time format
from .. import core
from ..core import Ob
from .C01 import REPS

UNITS = ['lib/token.c', 'lib/dt-locale.c']

H = 'C09_rt.c'

# (format, representation the value is held in, parse result may be another representation)
# long names (%A, %B) are left out: cbmc 6.11 produced spurious bytes for the copy of a symbolically
# selected string of more than 3 bytes (counterexamples did not replay on the real build)
YMD_FMTS = ['%F', '%Y-%m-%d', '%Y%m%d', '%d/%m/%Y', '%Y %b %d', '%d %b %Y', '%Y-%m-%dth', '%Y-%-m-%-d', '%d.%m.%Y',
            '%a %Y-%m-%d', '%a, %d %b %Y', '%Y-%_b-%d', '%OY-%Om-%Od', '%Y-%j', '%Y-%D', '%Y%j', '%Y-%mth-%d']
YWD_FMTS = ['%G-W%V-%u', '%GW%V%u', '%G %V %u']
YMCW_FMTS = ['%Y-%m-%c-%w', '%Y-%m-%c-%a', '%Y %b %c %a']


def q(s):
    return '"%s"' % s


def make_obs(ctx):
    obs = []
    wins = core.year_windows(ctx.tier, ctx.seed, step=50, quick=[(1999, 2004), (2395, 2400)])
    if ctx.tier == 'quick':
        wins = wins[:2]
    for (lo, hi) in wins:
        d = {'YLO': lo, 'YHI': hi}
        b = {'days': 'every day of %d..%d' % (lo, hi)}
        for f in YMD_FMTS:
            anyrep = 1 if 'j' in f or 'D' in f else 0
            dd = dict(d, FMT=q(f), REP=REPS['ymd'])
            if anyrep:
                dd['ANYREP'] = 1
            obs.append(Ob('rt:ymd:%s:%d-%d' % (f.replace(' ', '_'), lo, hi), H, 'h_roundtrip', dd, units=UNITS,
                          unwind=44, group='rt:ymd', timeout=300, bounds=dict(b, format=f),
                          kfwhole='rt_' + core.treekey(f)))
        for f in YWD_FMTS:
            obs.append(Ob('rt:ywd:%s:%d-%d' % (f.replace(' ', '_'), lo, hi), H, 'h_roundtrip',
                          dict(d, FMT=q(f), REP=REPS['ywd']), units=UNITS, unwind=44, group='rt:ywd', timeout=300,
                          bounds=dict(b, format=f), kfwhole='rt_' + core.treekey(f)))
        for f in YMCW_FMTS:
            obs.append(Ob('rt:ymcw:%s:%d-%d' % (f.replace(' ', '_'), lo, hi), H, 'h_roundtrip',
                          dict(d, FMT=q(f), REP=REPS['ymcw']), units=UNITS, unwind=44, group='rt:ymcw', timeout=300,
                          bounds=dict(b, format=f), kfwhole='rt_' + core.treekey(f)))
        for rp in ('ymd', 'ywd', 'ymcw'):
            obs.append(Ob('rt:default:%s:%d-%d' % (rp, lo, hi), H, 'h_roundtrip', dict(d, REP=REPS[rp], USE_DEFAULT=1),
                          units=UNITS, unwind=44, group='rt:default', timeout=300,
                          bounds=dict(b, format='default output of the calendar, format-less parser'),
                          kfwhole='rt_default_' + rp))
    # times of day: every h:m:s through each enumerated time format
    tf = [('%H:%M:%S', 7), ('%T', 7), ('%I:%M:%S %p', 7), ('%I:%M:%S%P', 7), ('%p %I.%M.%S', 7), ('%H%M%S', 7), ('%Hh %Mm %Ss', 7),
          ('%H:%M', 3), ('%I:%M %p', 3), ('%M:%S', 6), ('%H', 1), ('%I%p', 1), ('%S', 4)]
    for (f, keep) in tf:
        obs.append(Ob('rt:time:%s' % f.replace(' ', '_'), 'C09_time.c', 'h_rt_time', {'FMT': q(f), 'KEEP': keep},
                      units=['lib/token.c'], unwind=len(f) + 6, group='rt:time', timeout=300,
                      bounds={'times': 'every h:m:s of the day', 'format': f}, kfwhole='rt_time_' + core.treekey(f)))
    # epoch seconds (%s): the text layer (decimal digits) stalls SAT, the value layer is decided here with C11's
    # harness: the civil date-time a %s field denotes and the epoch a civil date-time prints as are inverse, every
    # second of the window, negative epochs included (added after a seeded change in __sexy_to_daisy that the
    # text-level round trips could not see)
    from .C11 import UNITS as TUNITS, H as TH
    base = 134775
    ew = [(base - 3, base + 3), (base - 25000, base - 24995)]
    if ctx.tier == 'thorough':
        ew += [(a, a + 6) for a in range(1, 910000, 49999)]
    for (a, e) in ew:
        obs.append(Ob('rt:epoch-value:d%d-%d' % (a, e), TH, 'h_epoch', dict(DLO=a, DHI=e, TGT='DT_YMD'), timeout=400,
                      units=TUNITS, group='rt:epoch-value', bounds={'epochs': 'every Unix second of day numbers %d..%d' % (a, e)},
                      remove_bodies=core.prune_cals(['daisy', 'ymd'])))
    return obs


def run(tier, seed):
    return core.run_property(
        'C09', tier, seed, make_obs,
        level_note=('formats enumerated (the program), days symbolic per year window: one query decides strp(strf(v)) == v '
                    'and full consumption for every day of the window'),
        assumptions=['built-in English names (shipped locales not yet covered)', 'date formats and time-of-day formats; date-time formats, the decimal text of %s (its value layer is covered), %Z, nanoseconds, 24:00:00 and leap seconds not yet covered',
                     'formats listed in vf/props/C09.py; longer or other formats outside'],
        stubs=[])
