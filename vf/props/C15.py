# C15 -- dateseq emits exactly the arithmetic progression between its bounds
from .. import core
from ..core import Ob

H = 'C15_seq.c'
UNITS = ['lib/date-core.c', 'lib/time-core.c', 'lib/dt-core.c', 'lib/strops.c', 'lib/token.c', 'lib/leaps.c',
         'lib/dt-locale.c', 'lib/dt-core-tz-glue.c']


def make_obs(ctx):
    obs = []
    # the guarantee side: the real dt_dtadd() is the contract the sequences are run against
    obs.append(Ob('contract:daisy', H, 'h_contract', {'PART_CONTRACT': 1, 'SHAPE': 1}, units=UNITS, unwind=3, group='contract',
                  timeout=900, remove_bodies=core.prune_cals(['daisy']),
                  bounds={'value': 'date-only day number 500..905000', 'increment': '-64..64 of d, w, h, m, s'}))
    ywins = [(1700, 2100)] if ctx.tier == 'quick' else core.year_windows_full(400)
    for (lo, hi) in ywins:
        obs.append(Ob('contract:ymd:%d-%d' % (lo, hi), H, 'h_contract', {'PART_CONTRACT': 1, 'SHAPE': 2, 'YLO': lo, 'YHI': hi},
                      units=UNITS, unwind=8, group='contract', timeout=900, remove_bodies=core.prune_cals(['ymd']),
                      bounds={'value': 'date-only ymd, years %d..%d, day 1..31 (also days beyond the month, as the sequence holds them)' % (lo, hi),
                              'increment': '-64..64 of mo, y, h, m, s'}))
    obs.append(Ob('contract:hms', H, 'h_contract', {'PART_CONTRACT': 1, 'SHAPE': 3}, units=UNITS, unwind=3, group='contract',
                  timeout=900, remove_bodies=core.prune_cals([]),
                  bounds={'value': 'time-only h:m:s', 'increment': '-64..64 of h, m, s, d, w, mo, y'}))
    obs.append(Ob('contract:order:daisy', H, 'h_contract_cmp', {'PART_CONTRACT': 1, 'SHAPE': 1}, units=UNITS, unwind=4, group='contract',
                  timeout=900, remove_bodies=core.prune_cals(['daisy']),
                  bounds={'values': 'three date-only day numbers 500..905000'}))
    obs.append(Ob('contract:order:ymd', H, 'h_contract_cmp', {'PART_CONTRACT': 1, 'SHAPE': 2}, units=UNITS, unwind=4, group='contract',
                  timeout=900, remove_bodies=core.prune_cals(['ymd']),
                  bounds={'values': 'three date-only ymd values, any year, day 1..31'}))

    def uws(k):
        # one loop per function in dseq.c's iteration core; the increment stack has one entry
        return ['date_add.0:2', 'date_neg_dur.0:2', '__durstack_naught_p.0:2', '__seq_this.0:%d' % (k + 3),
                '__fixup_fst.0:%d' % (k + 3), 'vf_run.0:%d' % (k + 4)]
    import os
    km, nm = (int(os.environ.get('VERIF_C15_K', 2)), 8) if ctx.tier == 'quick' else (4, 15)
    for unit in ('DT_DURD', 'DT_DURWK', 'DT_DURH', 'DT_DURS'):
        for fl in (0, 1):
            if fl and unit in ('DT_DURH', 'DT_DURS'):
                continue
            obs.append(Ob('seq-days:%s:%s' % (unit[6:].lower(), 'from-last' if fl else 'from-first'), H, 'h_seq_days',
                          {'KMAX': km, 'NMAX': nm, 'UNIT': unit, 'FROMLAST': fl}, units=UNITS, unwind=km + 3, unwindset=uws(km),
                          group='seq-days', timeout=1500, remove_bodies=core.prune_cals(['daisy']),
                          bounds={'FIRST': 'any day number 1000..900000', 'LAST': 'within %d days either side' % km,
                                  'INC': '-%d..%d %s' % (nm, nm, {'DT_DURD': 'days', 'DT_DURWK': 'weeks', 'DT_DURH': 'hours (must be refused or empty)',
                                                                  'DT_DURS': 'seconds (must be refused or empty)'}[unit]),
                                  'skip': 'any set of weekdays but all seven', 'compute-from-last': bool(fl)}))
    for (lo, hi) in ([(1990, 2010)] if ctx.tier == 'quick' else core.year_windows_full(400)):
        obs.append(Ob('seq-months:%d-%d' % (lo, hi), H, 'h_seq_months', {'KMAX': 5 if ctx.tier == 'quick' else 8, 'NMAX': 14, 'YLO': lo, 'YHI': hi},
                      units=UNITS, unwind=(5 if ctx.tier == 'quick' else 8) + 3, unwindset=uws(5 if ctx.tier == 'quick' else 8), group='seq', timeout=1500,
                      remove_bodies=core.prune_cals(['ymd']),
                      bounds={'FIRST': 'every day of %d..%d' % (lo, hi), 'LAST': 'any date up to 30 years either side',
                              'INC': '-14..14 months or years', 'members': '<= KMAX+1'}))
    kt = int(os.environ.get('VERIF_C15_K', 2)) if ctx.tier == 'quick' else 4
    obs.append(Ob('seq-times', H, 'h_seq_times', {'KMAX': kt, 'NMAX': 59}, units=UNITS, unwind=kt + 3, unwindset=uws(kt), group='seq', timeout=1500,
                  remove_bodies=core.prune_cals([]),
                  bounds={'FIRST/LAST': 'any two different times of day', 'INC': '-23..23 h, -59..59 m or s; or d, w, mo, y (must be refused or empty)',
                          'members': '<= %d' % (kt + 1)}))
    return obs


def run(tier, seed):
    return core.run_property(
        'C15', tier, seed, make_obs,
        level_note=('bounded model checking of the iteration core of src/dseq.c called in the order of main() (weaker than '
                    'driving main itself), assume-guarantee: dt_dtadd() inside dseq.c is its contract, the contract is proved '
                    'against the real dt_dtadd() by the contract:* obligations; emitted values == reference progression, '
                    'termination within the bound'),
        assumptions=['main() itself (option parsing, text parsing, promotion of mixed arguments, the switch to day counts) is not driven',
                     'date-time sequences, compound increments, alternative increments and business days not covered',
                     'sequences with more members than the stated bound are outside',
                     'equal time-of-day bounds are outside (the tool goes once around the clock)'],
        stubs=['dt_dtadd, dt_dtcmp, dt_dt_in_range_p inside dseq.c: vf_dtadd, vf_dtcmp, vf_in_range, the contracts proved by contract:*'])
