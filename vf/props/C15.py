# C15 -- dateseq emits exactly the arithmetic progression between its bounds
from .. import core
from ..core import Ob

H = 'C15_seq.c'
UNITS = ['lib/date-core.c', 'lib/time-core.c', 'lib/dt-core.c', 'lib/strops.c', 'lib/token.c', 'lib/leaps.c',
         'lib/dt-locale.c', 'lib/dt-core-tz-glue.c']


def make_obs(ctx):
    obs = []
    # the guarantee side: the real dt_dtadd() is the contract the sequences are run against
    obs.append(Ob('contract:daisy', H, 'h_contract', {'PART_CONTRACT': 1, 'SHAPE': 1}, units=UNITS, unwind=3, group='contract',
                  timeout=900, remove_bodies=core.prune_cals(['daisy']),
                  bounds={'value': 'date-only day number 500..905000', 'increment': '-64..64 of d, w, h, m, s'}))
    ywins = [(1700, 2100)] if ctx.tier == 'quick' else core.year_windows_full(400)
    for (lo, hi) in ywins:
        obs.append(Ob('contract:ymd:%d-%d' % (lo, hi), H, 'h_contract', {'PART_CONTRACT': 1, 'SHAPE': 2, 'YLO': lo, 'YHI': hi},
                      units=UNITS, unwind=8, group='contract', timeout=900, remove_bodies=core.prune_cals(['ymd']),
                      bounds={'value': 'date-only ymd, years %d..%d, day 1..31 (also days beyond the month, as the sequence holds them)' % (lo, hi),
                              'increment': '-64..64 of mo, y, h, m, s'}))
    obs.append(Ob('contract:hms', H, 'h_contract', {'PART_CONTRACT': 1, 'SHAPE': 3}, units=UNITS, unwind=3, group='contract',
                  timeout=900, remove_bodies=core.prune_cals([]),
                  bounds={'value': 'time-only h:m:s', 'increment': '-23..23 h, -59..59 m or s, -64..64 d, w, mo, y'}))
    obs.append(Ob('contract:order:daisy', H, 'h_contract_cmp', {'PART_CONTRACT': 1, 'SHAPE': 1}, units=UNITS, unwind=4, group='contract',
                  timeout=900, remove_bodies=core.prune_cals(['daisy']),
                  bounds={'values': 'three date-only day numbers 500..905000'}))
    obs.append(Ob('contract:order:ymd', H, 'h_contract_cmp', {'PART_CONTRACT': 1, 'SHAPE': 2}, units=UNITS, unwind=4, group='contract',
                  timeout=900, remove_bodies=core.prune_cals(['ymd']),
                  bounds={'values': 'three date-only ymd values, any year, day 1..31'}))

    obs.append(Ob('contract:fixup', H, 'h_contract_fixup', {'PART_CONTRACT': 1, 'SHAPE': 2}, units=UNITS, unwind=4, group='contract',
                  timeout=600, remove_bodies=core.prune_cals(['ymd']),
                  bounds={'values': 'date-only ymd, ymd date-time and time-only values, day 1..31'}))

    def uws(j):
        # one loop per function in dseq.c's iteration core; the increment stack has one or two entries
        return ['date_add.0:3', 'date_neg_dur.0:3', '__durstack_naught_p.0:3', '__seq_this.0:%d' % (j + 2), '__fixup_fst.0:%d' % (j + 3)]
    def P(keep):
        # getters of the other calendars as well: the values here are day numbers, ymd dates or times
        return core.prune_cals(keep) + [r'__(%s)_get_[a-z]+' % '|'.join(c for c in ('ymd', 'ymcw', 'ywd', 'yd', 'bizda') if c not in keep)]
    nm = 40 if ctx.tier == 'quick' else 64
    LEM = {1: 'dir', 2: 'range', 3: 'this', 4: 'next', 5: 'from-last'}
    # day numbers
    for unit in ('DT_DURD', 'DT_DURWK'):
        for lem in (1, 2, 3, 4, 5):
            jm = (6 if ctx.tier == 'quick' else 7) if lem in (3, 4) else (2 if ctx.tier == 'quick' else 3)
            obs.append(Ob('days:%s:%s' % (unit[6:].lower(), LEM[lem]), H, 'h_days', {'UNIT': unit, 'LEMMA': lem, 'NMAX': nm if unit == 'DT_DURD' else 8, 'JMAX': jm},
                          units=UNITS, unwind=jm + 3, unwindset=uws(jm), group='days', timeout=1200 if ctx.tier == 'quick' else 3600, memgb=7 if lem == 5 else 3, remove_bodies=P(['daisy']),
                          bounds={'FIRST': 'any day number 2000..900000', 'LAST': 'within 1000 days either side', 'state': 'any day within 1100 days of FIRST',
                                  'INC': '-%d..%d %s' % (nm if unit == 'DT_DURD' else 8, nm if unit == 'DT_DURD' else 8, unit[6:].lower()),
                                  'skip': 'any set of weekdays but all seven', 'skip loop / anchored members': '<= %d' % jm}))
    for unit in ('DT_DURH', 'DT_DURM', 'DT_DURS'):
        obs.append(Ob('days:%s:dir' % unit[6:].lower(), H, 'h_days', {'UNIT': unit, 'LEMMA': 1, 'NMAX': 64, 'JMAX': 3}, units=UNITS,
                      unwind=6, unwindset=uws(3), group='days', timeout=600, remove_bodies=P(['daisy']),
                      bounds={'FIRST/LAST': 'any two day numbers', 'INC': '-64..64 %s: must be refused' % unit[6:].lower()}))
    # ymd dates, months and years
    for (lo, hi) in ([(1990, 2010)] if ctx.tier == 'quick' else core.year_windows_full(400)):
        for unit in ('DT_DURMO', 'DT_DURYR'):
            for lem in (1, 2, 3):
                obs.append(Ob('months:%s:%s:%d-%d' % (unit[6:].lower(), {1: 'dir', 2: 'range', 3: 'this-next'}[lem], lo, hi), H, 'h_months',
                              {'UNIT': unit, 'LEMMA': lem, 'NMAX': 60 if unit == 'DT_DURMO' else 5, 'JMAX': 3, 'YLO': lo, 'YHI': hi}, units=UNITS,
                              unwind=8, unwindset=uws(3), group='months', timeout=1200, remove_bodies=P(['ymd']),
                              bounds={'FIRST': 'every day of %d..%d at least 75 years inside 1601..4095' % (lo, hi), 'LAST': 'any date up to 60 years either side',
                                      'state': "any month up to 66 years either side, FIRST's day of the month",
                                      'INC': '-60..60 months' if unit == 'DT_DURMO' else '-5..5 years'}))
    # times of day
    for unit in ('DT_DURH', 'DT_DURM', 'DT_DURS'):
        for lem in (1, 2, 3):
            obs.append(Ob('times:%s:%s' % (unit[6:].lower(), {1: 'dir', 2: 'range', 3: 'this-next'}[lem]), H, 'h_times',
                          {'UNIT': unit, 'LEMMA': lem, 'NMAX': 59, 'JMAX': 3}, units=UNITS, unwind=6, unwindset=uws(3), group='times', timeout=1200,
                          remove_bodies=P([]),
                          bounds={'FIRST/LAST': 'any two different times of day', 'INC': '-23..23 h, -59..59 m or s',
                                  'state': 'any time on any day carry -3..3 not before FIRST whose predecessor is in range'}))
    for lem in (1, 2, 3):
        obs.append(Ob('times:h+m:%s' % {1: 'dir', 2: 'range', 3: 'this-next'}[lem], H, 'h_times',
                      {'UNIT': 'DT_DURH', 'UNIT2': 'DT_DURM', 'LEMMA': lem, 'NMAX': 59, 'JMAX': 3}, units=UNITS, unwind=6, unwindset=uws(3),
                      group='times', timeout=1200, remove_bodies=P([]),
                      bounds={'FIRST/LAST': 'any two different times of day', 'INC': 'compound: +-(1..23 h and 1..59 m), same sign',
                              'state': 'any time on any day carry -3..3 not before FIRST whose predecessor is in range'}))
    for unit in ('DT_DURD', 'DT_DURWK', 'DT_DURMO', 'DT_DURYR'):
        obs.append(Ob('times:%s:dir' % unit[6:].lower(), H, 'h_times', {'UNIT': unit, 'LEMMA': 1, 'NMAX': 59, 'JMAX': 3}, units=UNITS,
                      unwind=6, unwindset=uws(3), group='times', timeout=600, remove_bodies=P([]),
                      bounds={'FIRST/LAST': 'any two different times of day', 'INC': '-59..59 %s: must be refused' % unit[6:].lower()},
                      kf=['time_dateunit'] if False else []))
    return obs


def run(tier, seed):
    return core.run_property(
        'C15', tier, seed, make_obs,
        level_note=('bounded model checking of the iteration core of src/dseq.c step by step from arbitrary states (direction, '
                    'range test, this, next, from-last anchoring), for day numbers, ymd dates with month/year steps and times of day; '
                    'assume-guarantee: dt_dtadd/dt_dtcmp/dt_dt_in_range_p inside dseq.c are contracts proved against the real '
                    'functions by the contract:* obligations; that the steps compose to the printed progression and to termination '
                    'is an induction argued in DESIGN 8/C15, not a solver query'),
        assumptions=['main() itself (option parsing, text parsing, promotion of mixed arguments, the switch to day counts) is not driven',
                     'date-time sequences, compound increments other than h+m, alternative increments and business days not covered',
                     'month/year sequences whose FIRST lies within 75 years of the ends of the supported range are outside',
                     'skip sets with month/year steps and with times of day are outside',
                     'equal time-of-day bounds are outside (the tool goes once around the clock)'],
        stubs=['dt_dtadd, dt_dtcmp, dt_dt_in_range_p, dt_get_wday inside dseq.c: vf_dtadd, vf_dtcmp, vf_in_range, vf_get_wday, the contracts proved by contract:*'])
