# C10 -- parsers and formatters are memory-safe and total on arbitrary input
import os

from .. import core
from ..core import Ob

H = 'C10_mem.c'
DT_UNITS = ['lib/date-core.c', 'lib/time-core.c', 'lib/strops.c', 'lib/token.c', 'lib/leaps.c', 'lib/dt-locale.c']
DSPECS = 'FYymdjDuwcCUVWaAbBhQqGg'


def tok_loops(ctx):
    """loop id of each `goto next' back-edge of __tok_spec, keyed by its modifier character"""
    import re
    from ..core import sh
    src = open(os.path.join(ctx.snap, 'lib', 'token.c')).read().splitlines()
    line2mod = {}
    for i, l in enumerate(src, 1):
        if 'goto next' in l:
            j = i
            while j > 0 and 'case' not in src[j - 1]:
                j -= 1
            m = re.search(r"case '(.)'", src[j - 1])
            if m:
                line2mod[i] = m.group(1)
    ob = Ob('probe', H, 'h_tok', {'FLEN': 1}, units=DT_UNITS)
    gb = ctx.compile_gb(ob)
    out = sh(['goto-instrument', '--show-loops', gb], timeout=300).stdout
    mod2loop = {}
    for m in re.finditer(r'Loop (__tok_spec\.\d+):\n\s+file \S+ line (\d+)', out):
        if int(m.group(2)) in line2mod:
            mod2loop[line2mod[int(m.group(2))]] = m.group(1)
    if len(mod2loop) != len(line2mod) or not mod2loop:
        raise core.Broken('cannot map the modifier back-edges of __tok_spec: %r %r' % (line2mod, mod2loop))
    ctx.mod2loop = mod2loop
    return {'tok_spec_back_edges': mod2loop}


def make_obs(ctx):
    obs = []
    mods = sorted(ctx.mod2loop)
    prefixes = [''] + mods
    if ctx.tier == 'thorough':
        prefixes += [a + b for a in mods for b in mods]
    tails = (0, 1, 2, 3) if ctx.tier == 'quick' else (0, 1, 2, 3, 4, 5)
    for p in prefixes:
        for t in tails:
            n = 1 + len(p) + t
            uws = ['%s:%d' % (ctx.mod2loop[m], p.count(m) + 1) for m in mods]
            obs.append(Ob('tok:%%%s+%d' % (p.replace(' ', 'SPC'), t), H, 'h_tok', {'FLEN': n, 'PFX': '"%s"' % p},
                          units=DT_UNITS, unwind=n + 3, unwindset=uws, mem=True, replay='asan', group='tok', timeout=300,
                          bounds={'format': 'percent sign, modifier prefix %r, then %d arbitrary non-NUL bytes; object of exactly %d bytes' % (p, t, n + 1)}))
    # (D) date parser driver: enumerated formats, arbitrary input bytes
    fmts = ['%' + c for c in DSPECS] + ['%F %', '%Y-%m-%d', '%dth', '%db', '%Od', '%_a', '%-d', '%Y%m', 'x%d', '%d%%', '%rY']
    ils = (0, 1, 2, 4) if ctx.tier == 'quick' else (0, 1, 2, 3, 4, 5, 6, 8)
    for f in fmts:
        for il in ils:
            obs.append(Ob('strpd:%s:in%d' % (f.replace(' ', 'SPC'), il), H, 'h_strpd',
                          {'CFMT': '"%s"' % f.replace('%', '%'), 'FLEN': len(f), 'ILEN': il}, units=DT_UNITS,
                          unwind=max(il, len(f)) + 12, mem=True, replay='asan', group='strpd', timeout=300,
                          remove_bodies=core.prune_cals(['ymd', 'daisy']),
                          bounds={'format': f, 'input': '%d arbitrary non-NUL bytes in an object of exactly %d bytes' % (il, il + 1)}))
    # (F) date formatter driver: enumerated formats, arbitrary value, small buffers
    bszs = (1, 2, 3, 4, 10, 11) if ctx.tier == 'quick' else (1, 2, 3, 4, 5, 8, 9, 10, 11, 12)
    ffm = ['%' + c for c in DSPECS] + ['%dth', '%db', '%dB', '%Od', '%OY', '%_a', '%_b', '%-d', '%F%F', 'ab%d', '%Q%q']
    for f in ffm:
        for bz in bszs:
            obs.append(Ob('strfd:%s:buf%d' % (f, bz), H, 'h_strfd', {'CFMT': '"%s"' % f, 'FLEN': len(f), 'BSZ': bz},
                          units=DT_UNITS, unwind=16, mem=True, replay='asan', group='strfd', timeout=300,
                          bounds={'format': f, 'buffer': '%d bytes (heap object of exactly that size)' % bz,
                                  'value': 'any ymd / ymcw / ywd / daisy / bizda value with in-range fields'}))
    # (E) the escape decoder of -e / --backslash-escapes
    for sl in ((0, 1, 2, 3, 4) if ctx.tier == 'quick' else (0, 1, 2, 3, 4, 5, 6, 8)):
        obs.append(Ob('unescape:len%d' % sl, 'C10_io.c', 'h_unescape', {'SLEN': sl}, units=[], unwind=sl + 4, mem=True, replay='asan',
                      group='unescape', timeout=300,
                      bounds={'string': '%d arbitrary non-NUL bytes in an object of exactly %d bytes' % (sl, sl + 1)}))
    # (PT/FT) time parser and formatter, (PDT/FDT) date-time parser and formatter
    tfm = ['%T', '%H:%M:%S', '%I:%M:%S %p', '%H', '%M', '%S', '%N', '%I%P', '%H:%M:%S.%N', '%T %', '%H%%']
    tils = (0, 1, 2, 4) if ctx.tier == 'quick' else (0, 1, 2, 3, 4, 5, 6, 8)
    for f in tfm:
        for il in tils:
            obs.append(Ob('strpt:%s:in%d' % (f.replace(' ', 'SPC'), il), H, 'h_strpt', {'CFMT': '"%s"' % f, 'FLEN': len(f), 'ILEN': il},
                          units=DT_UNITS, unwind=max(il, len(f)) + 12, mem=True, replay='asan', group='strpt', timeout=300,
                          remove_bodies=core.prune_cals(['ymd', 'daisy']),
                          bounds={'format': f, 'input': '%d arbitrary non-NUL bytes in an object of exactly %d bytes' % (il, il + 1)}))
        for bz in ((1, 2, 3, 4, 9, 10) if ctx.tier == 'quick' else (1, 2, 3, 4, 5, 8, 9, 10, 11, 12)):
            obs.append(Ob('strft:%s:buf%d' % (f.replace(' ', 'SPC'), bz), H, 'h_strft', {'CFMT': '"%s"' % f, 'FLEN': len(f), 'BSZ': bz},
                          units=DT_UNITS, unwind=16, mem=True, replay='asan', group='strft', timeout=300,
                          remove_bodies=core.prune_cals(['ymd', 'daisy']),
                          bounds={'format': f, 'buffer': '%d bytes' % bz, 'value': 'any h:m:s.ns incl. 24:00:00 and second 60'}))
    dtfm = ['%FT%T', '%Y-%m-%dT%H:%M:%S', '%F %I:%M %p', '%s', '%T', '%F', '%FT%T %', '%d %b %Y %H:%M']
    for f in dtfm:
        for il in ((0, 1, 2, 4) if ctx.tier == 'quick' else (0, 1, 2, 3, 4, 5, 6)):
            obs.append(Ob('strpdt:%s:in%d' % (f.replace(' ', 'SPC'), il), H, 'h_strpdt', {'CFMT': '"%s"' % f, 'FLEN': len(f), 'ILEN': il},
                          units=DT_UNITS, unwind=max(il, len(f)) + 12, unwindset=['memcmp.0:64'], mem=True, replay='asan', group='strpdt', timeout=600,
                          remove_bodies=core.prune_cals(['ymd', 'daisy']),
                          bounds={'format': f, 'input': '%d arbitrary non-NUL bytes in an object of exactly %d bytes' % (il, il + 1)}))
        for bz in ((1, 2, 4, 11, 19, 20) if ctx.tier == 'quick' else (1, 2, 3, 4, 5, 10, 11, 12, 19, 20, 21)):
            obs.append(Ob('strfdt:%s:buf%d' % (f.replace(' ', 'SPC'), bz), H, 'h_strfdt', {'CFMT': '"%s"' % f, 'FLEN': len(f), 'BSZ': bz},
                          units=DT_UNITS, unwind=24, mem=True, replay='asan', group='strfdt', timeout=600,
                          remove_bodies=core.prune_cals(['ymd', 'daisy']),
                          bounds={'format': f, 'buffer': '%d bytes' % bz, 'value': 'any ymd date (day 1..31) with any h:m:s'}))
    return obs


def run(tier, seed):
    return core.run_property(
        'C10', tier, seed, make_obs, pre=tok_loops,
        level_note=('bounded model checking with cbmc bounds/pointer/pointer-overflow checks; strings live in heap '
                    'objects of exact size so that any access past the terminator is a violation'),
        assumptions=['allocation never fails', 'strings up to the stated lengths'],
        stubs=[])
