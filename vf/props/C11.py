# C11 -- time-of-day and epoch arithmetic is exact across midnight
from .. import core
from ..core import Ob
from .C01 import REPS

H = 'C11_time.c'
UNITS = ['lib/date-core.c', 'lib/time-core.c', 'lib/strops.c', 'lib/token.c', 'lib/leaps.c',
         'lib/dt-locale.c']
DUR = {'s': 'DT_DURS', 'm': 'DT_DURM', 'h': 'DT_DURH'}


def make_obs(ctx):
    obs = []
    P = core.prune_cals
    obs.append(Ob('tadd', H, 'h_tadd', {}, units=UNITS, group='tadd', timeout=600,
                  bounds={'time': 'every h:m:s', 'n': '|n| < 86400 s (dt_dtadd splits off whole days)'}))
    ywins = core.year_windows(ctx.tier, ctx.seed, step=5, quick=[(1970, 1970), (2000, 2000)])
    if ctx.tier == 'quick':
        ywins = ywins[:2]
    # larger counts (100000 s, 3000 m) ran past the 400 s cap for the day-number calendar: 64-bit division by 86400
    nb = {'s': 1024, 'm': 60, 'h': 30} if ctx.tier == 'quick' else {'s': 4096, 'm': 120, 'h': 48}
    for (lo, hi) in ywins:
        d = {'YLO': lo, 'YHI': hi}
        b = {'date-times': 'every second of %d..%d' % (lo, hi)}
        for u in ('s', 'm', 'h'):
            obs.append(Ob('dtadd:daisy:%s:%d-%d' % (u, lo, hi), H, 'h_dtadd',
                          dict(d, REP=REPS['daisy'], UNIT=DUR[u], NMAX=nb[u], STUB_TADD=1), units=UNITS, group='dtadd:daisy:' + u,
                          bounds=dict(b, n='|n| <= %d %s' % (nb[u], u)), remove_bodies=P(['daisy']), timeout=400 if ctx.tier == 'quick' else 1200,
                          kf=['daisy_tail'] if hi >= 4094 else []))
        # wide hour counts with the REAL dt_tadd_s (the 4-bit day carry out of a time addition)
        obs.append(Ob('dtadd:daisy:h-wide:%d-%d' % (lo, hi), H, 'h_dtadd',
                      dict(d, REP=REPS['daisy'], UNIT='DT_DURH', NMAX=200), units=UNITS, group='dtadd:daisy:h-wide',
                      bounds=dict(b, n='|n| <= 200 h (beyond the +-7 day carry slot)'), remove_bodies=P(['daisy']),
                      timeout=600))
        for rp, nmax, uw in (('ymd', 1024, 5), ('ywd', 1024, 4), ('yd', 1024, 4)):
            obs.append(Ob('dtadd:%s:s:%d-%d' % (rp, lo, hi), H, 'h_dtadd',
                          dict(d, REP=REPS[rp], UNIT='DT_DURS', NMAX=nmax, STUB_TADD=1), units=UNITS, unwind=uw,
                          group='dtadd:%s:s' % rp, remove_bodies=P([rp]), timeout=400 if ctx.tier == 'quick' else 1200,
                          bounds=dict(b, n='|n| <= %d s' % nmax)))
        for rp in ('ymd', 'daisy', 'ywd'):
            obs.append(Ob('milfup:%s:%d-%d' % (rp, lo, hi), H, 'h_milfup', dict(d, REP=REPS[rp]), units=UNITS,
                          unwind=12, group='milfup:' + rp, remove_bodies=P([rp]),
                          bounds={'days': 'every day of %d..%d' % (lo, hi)}))
    for km in ((2, 40, 911280) if ctx.tier == 'quick' else (2, 40, 400, 24000, 911280)):
        obs.append(Ob('dtdiff:k%d' % km, H, 'h_dtdiff', dict(KMAX=km), units=UNITS, group='dtdiff', timeout=600,
                      remove_bodies=P(['daisy']),
                      bounds={'first': 'every second of every day 1601..4095 (day-number held)',
                              'second': 'any time within %d days' % km}))
    # epoch <-> civil: every second of day-number windows: around epoch 0 (negative epochs),
    # both ends of the range, a leap day, century non-leap
    base = 134775
    ew = [(base - 3, base + 3), (1, 6), (911274, 911280), (core.jan0(2000) + 58, core.jan0(2000) + 62),
          (core.jan0(1900) + 58, core.jan0(1900) + 61), (base - 25000, base - 24995)]
    if ctx.tier == 'thorough':
        ew += [(a, a + 6) for a in range(1, 911280, 9973)]
    for (a, e) in ew:
        for tgt in ('daisy', 'ymd'):
            obs.append(Ob('epoch:%s:d%d-%d' % (tgt, a, e), H, 'h_epoch',
                          dict(DLO=a, DHI=e, TGT={'daisy': 'DT_DAISY', 'ymd': 'DT_YMD'}[tgt]), timeout=400,
                          units=UNITS, group='epoch:' + tgt, bounds={'epochs': 'every Unix second of day numbers %d..%d' % (a, e)},
                          remove_bodies=P(['daisy', 'ymd']),
                          kf=['daisy_tail'] if e > 910674 else []))
    return obs


def run(tier, seed):
    return core.run_property(
        'C11', tier, seed, make_obs,
        level_note=('bounded model checking of lib/dt-core.c + lib/time-core.c: every time of day, every day of '
                    'the window, signed counts up to 32 bits for day-number held values; loop calendars bounded'),
        assumptions=['reference epoch = (day - 134775)*86400 + seconds of day (h/ref.h)',
                     'leap seconds are the subject of C14 (tai flag off here)'],
        stubs=[])
