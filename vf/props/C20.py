# C20 -- results depend only on the arguments, not on clock, TZ or locale settings
import os

from .. import core
from ..core import Ob, sh

DT_UNITS = ['lib/date-core.c', 'lib/time-core.c', 'lib/strops.c', 'lib/token.c', 'lib/leaps.c', 'lib/dt-locale.c']
FORBIDDEN = ['localtime', 'localtime_r', 'mktime', 'timegm', 'tzset', 'setlocale', 'strftime', 'strptime',
             'nl_langinfo', 'strcoll', 'strxfrm', 'gmtime', 'gmtime_r', 'ctime', 'asctime', 'newlocale', 'uselocale']
TOOLS = ['dadd', 'dconv', 'ddiff', 'dgrep', 'dround', 'dseq', 'dtest', 'dzone', 'dsort']
LIBSRC = ['src/dt-io.c', 'src/dt-io-zone.c', 'src/alist.c', 'src/prchunk.c', 'lib/date-core.c', 'lib/time-core.c',
          'lib/dt-core.c', 'lib/strops.c', 'lib/token.c', 'lib/leaps.c', 'lib/tzraw.c', 'lib/tzmap.c',
          'lib/dt-locale.c', 'lib/dt-core-tz-glue.c', 'lib/version.c']


def callgraph(ctx):
    """reachable call graph of every tool's main(): no call into libc's zone / locale /
    broken-down-time machinery; the clock only through now_tv (gated by the base, see h_base_*)"""
    bad = []
    clock = {}
    edges_total = 0
    for t in TOOLS:
        out = os.path.join(ctx.scratch, 'tool_%s.gb' % t)
        cmd = ['goto-cc', '-std=gnu11'] + core.CPPFLAGS + ctx.incs(ctx.snap) + ['-o', out,
              os.path.join(ctx.snap, 'src', t + '.c')] + [os.path.join(ctx.snap, f) for f in LIBSRC]
        p = sh(cmd, timeout=600)
        if p.returncode != 0 or not os.path.exists(out):
            raise core.Broken('goto-cc of tool %s failed: %s' % (t, p.stdout[-1500:]))
        g = sh(['goto-instrument', '--reachable-call-graph', out], timeout=600).stdout
        for ln in g.splitlines():
            if ' -> ' not in ln:
                continue
            a, b = ln.strip().split(' -> ')
            edges_total += 1
            if b in FORBIDDEN:
                bad.append('%s: %s -> %s' % (t, a, b))
            if b in ('gettimeofday', 'time', 'clock_gettime'):
                clock.setdefault(t, set()).add(a)
    stray = ['%s: clock read in %s' % (t, sorted(fs)) for t, fs in clock.items()
             if fs - {'now_tv', 'dt_time', 'dt_date'}]
    if bad or stray:
        rdir = os.path.join(core.VERIF, 'evidence', 'replay', 'C20')
        os.makedirs(rdir, exist_ok=True)
        path = os.path.join(rdir, 'callgraph.txt')
        with open(path, 'w') as fh:
            fh.write('\n'.join(bad + stray) + '\n')
        ctx.callgraph_violation = path
    return {'callgraph': {'tools': TOOLS, 'edges_examined': edges_total, 'forbidden_callees': FORBIDDEN,
                          'forbidden_edges_found': bad, 'clock_readers': {t: sorted(v) for t, v in clock.items()}}}


def make_obs(ctx):
    obs = []
    for n in ((1, 2, 3) if ctx.tier == 'quick' else (1, 2, 3, 4)):
        obs.append(Ob('locale-setters:%d-calls' % n, 'C20_env.c', 'h_locale_setters', {'PART_LOCALE': 1, 'NCALLS': n},
                      unwind=max(n + 2, 16), group='locale-setters', timeout=600,
                      bounds={'sequence': 'every sequence of %d calls drawn from set_il(X), set_fl(Y), reset_il, reset_fl' % n}))
    obs.append(Ob('no-clock:fully-specified', 'C20_env.c', 'h_no_clock_full', {'PART_CLOCK': 1}, units=DT_UNITS, unwind=50,
                  group='clock', remove_bodies=core.prune_cals(['ymd', 'daisy']),
                  bounds={'input': 'any parse record with a year (every other field arbitrary)'}))
    obs.append(Ob('no-clock:with-base', 'C20_env.c', 'h_base_only', {'PART_CLOCK': 1}, units=DT_UNITS, unwind=50,
                  group='clock', remove_bodies=core.prune_cals(['ymd', 'daisy']),
                  bounds={'input': 'any record without a year, any valid base'}))
    # added after a missed seed: the time branch of the gate (time-only input, any subset of h/m/s given)
    obs.append(Ob('no-clock:with-base:time-only', 'C20_env.c', 'h_base_time', {'PART_CLOCK': 1}, units=DT_UNITS, unwind=50,
                  group='clock', remove_bodies=core.prune_cals(['ymd', 'daisy']),
                  bounds={'input': 'time-only record with any subset of hour/minute/second given', 'base': 'any valid date, alone or with any time of day'}))
    for (lo, hi) in ([(1969, 2038)] if ctx.tier == 'quick' else core.year_windows_full(400)):
        obs.append(Ob('no-clock:time-of-day-epoch:%d-%d' % (lo, hi), 'C20_env.c', 'h_epoch_with_base', {'PART_CLOCK': 1, 'YLO': lo, 'YHI': hi},
                      units=DT_UNITS, unwind=50, group='clock', remove_bodies=core.prune_cals(['ymd', 'daisy']),
                      bounds={'input': 'any time of day, any valid base date in %d..%d' % (lo, hi)}))
    return obs


def run(tier, seed):
    rc = core.run_property(
        'C20', tier, seed, make_obs, pre=callgraph,
        level_note=('bounded model checking of the locale setter state machine (all call sequences up to the bound) and of '
                    'the clock gate in massage_strpdt/dt_get_base; plus a call-graph obligation on every tool'),
        assumptions=['call-graph part is a static over-approximation computed by goto-instrument on the linked goto program, not a solver query',
                     'getenv is used for LOCALE_FILE / TZMAP_DIR path overrides only (not checked)',
                     'sort(1) locale sensitivity of dsort and libc snprintf decimal point outside'],
        stubs=['gettimeofday/time: counted stubs (any read is detected)'])
    return rc
