# C02 -- round trips, Hijri, representation- and order-independent printing
from .. import core
from ..core import Ob
from .C01 import REPS, UNITS, DAYNUM

HS = 'C02_strf.c'

# specifier -> value selector (C02_strf.c)
VALSPEC = [('%Y', 1), ('%m', 2), ('%d', 3), ('%j', 4), ('%D', 4), ('%u', 5), ('%w', 6),
           ('%c', 7), ('%C', 8), ('%U', 9), ('%W', 10), ('%V', 11), ('%G', 12), ('%q', 13),
           ('%Q', 13), ('%y', 14), ('%g', 15), ('%_y', 16)]
TXTSPEC = ['%F', '%a', '%A', '%_a', '%b', '%B', '%_b', '%dth', '%mth', '%-d', '%-m', '% d', '%-j']
PREREPS = ['ymd', 'ymcw', 'ywd', 'yd', 'daisy', 'ldn', 'mdn']


def q(s):
    return '"%s"' % s


def strf_windows(ctx):
    if ctx.tier == 'thorough':
        return core.year_windows_full(100)
    return [(1996, 2004), (4091, 4095)]


def make_obs(ctx):
    obs = []
    wins = core.year_windows(ctx.tier, ctx.seed, step=40,
                             quick=[(1601, 1604), (1896, 1904), (1996, 2004), (2396, 2404), (4088, 4095)])
    # (1) round trips through dt_dconv, no oracle
    reps = ['ymd', 'ymcw', 'ywd', 'yd', 'daisy']
    for (lo, hi) in wins:
        for s in reps:
            for t in reps:
                if s == t:
                    continue
                obs.append(Ob('roundtrip:%s->%s->%s:%d-%d' % (s, t, s, lo, hi), 'C02_rt.c', 'h_roundtrip',
                              {'YLO': lo, 'YHI': hi, 'SRC': REPS[s], 'TGT': REPS[t]}, units=UNITS,
                              group='roundtrip:%s->%s' % (s, t),
                              bounds={'days': 'every day of %d..%d' % (lo, hi)},
                              kf=['daisy_tail'] if (t in DAYNUM or s in DAYNUM) and hi >= 4094 else []))
    # (2) Hijri over the real table: 133 years in windows of 8 (quick: both ends + middle)
    ny = 133
    hw = [(a, min(a + 7, ny - 1)) for a in range(0, ny, 8)]
    if ctx.tier == 'quick':
        hw = [hw[0], hw[len(hw) // 2], hw[-1]]
    for (a, b) in hw:
        obs.append(Ob('hijri:%d-%d' % (1318 + a, 1318 + b), 'C02_hijri.c', 'h_hijri', {'HLO': a, 'HHI': b},
                      units=UNITS, unwind=136, group='hijri',
                      bounds={'days': 'every day of Hijri years %d..%d AH (symbolic LDN)' % (1318 + a, 1318 + b),
                              'unwind': '136 >= table rows + 2, checked by unwinding assertions'}))
    # (4) representation independence of every specifier's text
    for (lo, hi) in strf_windows(ctx):
        d = {'YLO': lo, 'YHI': hi}
        for sp in [v[0] for v in VALSPEC] + TXTSPEC:
            for rp in PREREPS:
                if rp == 'ymd':
                    continue
                obs.append(Ob('strf-indep:%s:%s:%d-%d' % (sp, rp, lo, hi), HS, 'h_strf_indep',
                              dict(d, FMT=q(sp), REP=REPS['ymd'], REP2=REPS[rp]), units=UNITS,
                              unwind=26, group='strf-indep:%s:%s' % (sp, rp),
                              bounds={'days': 'every day of %d..%d' % (lo, hi), 'format': sp},
                              kfwhole='strf_%s_%s' % (core.specname(sp), rp),
                              kf=['daisy_tail'] if rp in DAYNUM and hi >= 4094 else []))
    # (5) order independence
    pre = ['%m ', '%d ', '%F ', '%a ', '%c ', '%j ', '%V ', '%G ']
    for (lo, hi) in (strf_windows(ctx)[:1] if ctx.tier == 'quick' else core.year_windows_full(400)):
        d = {'YLO': lo, 'YHI': hi}
        for p in pre:
            for sp in ['%Y', '%m', '%d', '%j', '%a', '%c', '%V', '%G', '%u', '%b', '%U', '%C']:
                for rp in ['ymd', 'ymcw', 'ywd', 'daisy']:
                    if ctx.tier == 'quick' and rp in ('ymcw',) and p not in ('%m ', '%d '):
                        continue
                    obs.append(Ob('strf-order:%s|%s:%s:%d-%d' % (p.strip(), sp, rp, lo, hi), HS, 'h_strf_order',
                                  dict(d, FMT=q(sp), FMT2=q(p), REP=REPS[rp]), units=UNITS,
                                  unwind=26, group='strf-order:%s:%s' % (sp, rp),
                                  bounds={'days': 'every day of %d..%d' % (lo, hi), 'format': p + sp},
                                  kfwhole='strf_%s_%s' % (core.specname(sp), rp),
                                  kf=['daisy_tail'] if rp in DAYNUM and hi >= 4094 else []))
    return obs


def run(tier, seed):
    return core.run_property(
        'C02', tier, seed, make_obs,
        level_note=('bounded model checking per (specifier, representation, year window); round trips per '
                    'calendar pair and window; Hijri inside the table'),
        assumptions=['reference calendar model h/ref.h', 'formats are concrete strings (the program), days symbolic',
                     'enum bit-field rewrite in the goto-cc copy'],
        stubs=[])
