# C04 -- month / year arithmetic keeps the day and clamps to the end of month
from .. import core
from ..core import Ob
from .C01 import UNITS

H = 'C03_add.c'


def make_obs(ctx):
    obs = []
    wins = core.year_windows(ctx.tier, ctx.seed, step=20,
                             quick=[(1601, 1604), (1899, 1904), (1999, 2004), (2396, 2400), (4092, 4095)])
    for (lo, hi) in wins:
        d = {'YLO': lo, 'YHI': hi}
        b = {'days': 'every day of %d..%d' % (lo, hi)}
        obs.append(Ob('add-m:ymd:%d-%d' % (lo, hi), H, 'h_add_m_ymd', dict(d, MMAX=48), units=UNITS, unwind=7,
                      group='add-m:ymd', bounds=dict(b, n='|n| <= 48 months; composition a+b with |a|,|b| <= 48', unwind=7)))
        obs.append(Ob('add-y:ymd:%d-%d' % (lo, hi), H, 'h_add_y_ymd', d, units=UNITS, unwind=2,
                      group='add-y:ymd', bounds=dict(b, n='every n with result year in 1601..4095')))
        obs.append(Ob('add-q:ymd:%d-%d' % (lo, hi), H, 'h_add_q_ymd', dict(d, MMAX=48), units=UNITS, unwind=7,
                      group='add-q:ymd', bounds=dict(b, n='|n| <= 16 quarters')))
        obs.append(Ob('add-my:ymcw:%d-%d' % (lo, hi), H, 'h_add_m_ymcw', dict(d, MMAX=48), units=UNITS, unwind=7,
                      group='add-my:ymcw', bounds=dict(b, n='|n| <= 48 months or years; composition a+b with |a|,|b| <= 48')))
        obs.append(Ob('add-y:ywd:%d-%d' % (lo, hi), H, 'h_add_y_ywd', d, units=UNITS, unwind=2,
                      group='add-y:ywd', bounds=dict(b, n='every n with result year in range')))
        obs.append(Ob('add-y:yd:%d-%d' % (lo, hi), H, 'h_add_y_yd', d, units=UNITS, unwind=2,
                      group='add-y:yd', bounds=dict(b, n='every n with result year in range')))
        # business-day dates: month arithmetic and crop of the business-day index (harness of C07)
        for (u, nmax) in (('DT_DURMO', 30), ('DT_DURYR', 40), ('DT_DURQU', 10)):
            obs.append(Ob('add-%s:bizda:%d-%d' % (u[6:].lower(), lo, hi), 'C07_biz.c', 'h_bizda_add_m', dict(d, MUNIT=u, NMAX=nmax),
                          units=UNITS, unwind=nmax // 12 + 6 if u == 'DT_DURMO' else 8, group='add-my:bizda',
                          bounds=dict(b, n='|n| <= %d %s' % (nmax, u[6:].lower()), dates='every business-day date of the window')))
    return obs


def run(tier, seed):
    return core.run_property(
        'C04', tier, seed, make_obs,
        level_note=('bounded model checking: start day symbolic per year window, month count symbolic with '
                    '|n| <= 48 (loop bound checked by unwinding assertions), year count unbounded inside the range'),
        assumptions=['reference: year*12+month-1+n, day clamped to month length (h/ref.h)',
                     '|n| > 48 months outside the claim'],
        stubs=[])
