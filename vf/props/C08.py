# C08 -- comparison is the chronological total order; sorting respects it
from .. import core
from ..core import Ob
from .C01 import REPS, UNITS


def make_obs(ctx):
    obs = []
    H = 'C08_cmp.c'
    if ctx.tier == 'thorough':
        ws = core.year_windows_full(60)
        pairs = [(a, a) for a in ws] + list(zip(ws, ws[1:]))
    else:
        pairs = [((1999, 2001), (1999, 2001)), ((1899, 1900), (1900, 1901)), ((4094, 4095), (4094, 4095)),
                 ((1601, 1602), (1601, 1602)), ((2003, 2004), (2004, 2005))]
    for (w1, w2) in pairs:
        d = {'YLO': w1[0], 'YHI': w1[1], 'YLO2': w2[0], 'YHI2': w2[1]}
        b = {'pairs': 'every pair of days from %d..%d x %d..%d' % (w1 + w2)}
        tag = '%d-%d.%d-%d' % (w1 + w2)
        for rp in ('ymd', 'ymcw', 'ywd', 'yd', 'daisy'):
            obs.append(Ob('dcmp:%s:%s' % (rp, tag), H, 'h_dcmp', dict(d, REP=REPS[rp]), units=UNITS,
                          group='dcmp:%s' % rp, bounds=b))
            obs.append(Ob('in-range:%s:%s' % (rp, tag), H, 'h_in_range', dict(d, REP=REPS[rp]), units=UNITS,
                          group='in-range:%s' % rp, bounds=b))
        obs.append(Ob('trans:ymcw:%s' % tag, H, 'h_trans', dict(d, REP=REPS['ymcw']), units=UNITS,
                      group='trans:ymcw', bounds=b))
    # date-times and times (lib/dt-core.c, lib/time-core.c)
    DT_UNITS = ['lib/date-core.c', 'lib/time-core.c', 'lib/strops.c', 'lib/token.c', 'lib/leaps.c', 'lib/dt-locale.c']
    H2 = 'C08_dtcmp.c'
    dwins = [(2000, 2000), (1900, 1900), (4095, 4095)] if ctx.tier == 'quick' else core.year_windows_full(10)
    for (lo, hi) in dwins:
        d = {'YLO': lo, 'YHI': hi}
        b = {'pairs': 'every pair of seconds of %d..%d' % (lo, hi)}
        for rp in ('ymd', 'ymcw', 'ywd', 'daisy'):
            obs.append(Ob('dtcmp:%s:%d-%d' % (rp, lo, hi), H2, 'h_dtcmp', dict(d, REP=REPS[rp]), units=DT_UNITS,
                          group='dtcmp:%s' % rp, bounds=b, remove_bodies=core.prune_cals([rp])))
        obs.append(Ob('dt-in-range:%d-%d' % (lo, hi), H2, 'h_dt_in_range', d, units=DT_UNITS,
                      group='dt-in-range', bounds=b, remove_bodies=core.prune_cals(['daisy'])))
    obs.append(Ob('tcmp', H2, 'h_tcmp', {}, units=DT_UNITS, group='tcmp',
                  bounds={'pairs': 'every pair of times of day with nanoseconds'}))
    return obs


def run(tier, seed):
    return core.run_property(
        'C08', tier, seed, make_obs,
        level_note=('bounded model checking over pairs/triples of symbolic days per pair of year windows; '
                    'agreement with the integer order of reference day numbers gives totality, antisymmetry, transitivity'),
        assumptions=['values are canonical (as produced by parser/converters: C01/C02)',
                     'pairs of days from the same or adjacent year windows; sort(1)/cut(1) and process plumbing of dsort outside'],
        stubs=[])
