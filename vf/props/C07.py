# C07 -- business-day arithmetic counts Monday-Friday days exactly
from .. import core
from ..core import Ob
from .C01 import REPS, UNITS

H = 'C07_biz.c'


def make_obs(ctx):
    obs = []
    big = 1 << 20
    for wd in range(1, 8):
        for (lo, hi) in ((1, big), (-big, -1)):
            obs.append(Ob('d-equiv:wd%d:%s' % (wd, 'pos' if lo > 0 else 'neg'), H, 'h_d_equiv',
                          {'WD': wd, 'NLO': lo, 'NHI': hi}, units=UNITS, group='d-equiv', timeout=600,
                          bounds={'weekday': wd, 'n': '%d..%d (symbolic)' % (lo, hi)}))
    wins = core.year_windows(ctx.tier, ctx.seed, step=5,
                             quick=[(1900, 1900), (2000, 2000), (2003, 2003)])
    if ctx.tier == 'quick':
        wins[-1] = (wins[-1][0], wins[-1][0])
    for (lo, hi) in wins:
        d = {'YLO': lo, 'YHI': hi}
        b = {'days': 'every day of %d..%d' % (lo, hi)}
        for rp, nmax, uw in (('ymd', 22, 4), ('yd', 100, 3), ('ymcw', 20, 5), ('daisy', 100, 2), ('ywd', 20, 3)):
            obs.append(Ob('add-b:%s:%d-%d' % (rp, lo, hi), H, 'h_add_b', dict(d, REP=REPS[rp], NMAX=nmax),
                          units=UNITS, unwind=uw, group='add-b:%s' % rp,
                          bounds=dict(b, n='1 <= |n| <= %d business days' % nmax, unwind=uw),
                          kfwhole='add_b_%s' % rp))
        obs.append(Ob('diff-b:%d-%d' % (lo, hi), H, 'h_diff_b', dict(d, NMAX=120), units=UNITS,
                      group='diff-b', bounds=dict(b, second='within 120 days either side'),
                      kf=['diff_b_weekend_back']))
    bw = core.year_windows_full(50) if ctx.tier == 'thorough' else [(1601, 1650), (1890, 1910), (1990, 2010), (4050, 4095)]
    for (lo, hi) in bw:
        d = {'YLO': lo, 'YHI': hi}
        obs.append(Ob('bizda:%d-%d' % (lo, hi), H, 'h_bizda', d, units=UNITS, unwind=14, group='bizda',
                      bounds={'months': 'every month of %d..%d x every business-day index' % (lo, hi)},
                      kfwhole='bizda_conv'))
    for (lo, hi) in (wins if ctx.tier == 'thorough' else wins[:2]):
        obs.append(Ob('bizda-add:%d-%d' % (lo, hi), H, 'h_bizda_add', {'YLO': lo, 'YHI': hi, 'NMAX': 44},
                      units=UNITS, unwind=14, group='bizda-add', kfwhole='bizda_add',
                      bounds={'months': 'every bizda date of %d..%d' % (lo, hi), 'n': '1 <= |n| <= 44'}))
    return obs


def run(tier, seed):
    return core.run_property(
        'C07', tier, seed, make_obs,
        level_note=('bounded model checking; oracle is the counting function B(t) = Mon-Fri days among day '
                    'numbers 1..t, results are checked relationally (is the n-th business day after/before)'),
        assumptions=['reference h/ref.h + B(t)', 'counts beyond the stated |n| for the loop calendars outside the claim'],
        stubs=[])
