# C01 -- calendar conversions agree with the proleptic Gregorian / ISO calendar
from .. import core
from ..core import Ob

REPS = {'ymd': 1, 'ymcw': 2, 'ywd': 4, 'yd': 5, 'daisy': 6, 'ldn': 9, 'mdn': 10, 'jdn': 8}
H = 'C01_conv.c'
DAYNUM = ('daisy', 'ldn', 'mdn')
UNITS = ['lib/strops.c', 'lib/token.c', 'lib/dt-locale.c']


def make_obs(ctx):
    obs = []
    obs.append(Ob('year-lemmas', H, 'h_year_lemmas', {'YLO': 1601, 'YHI': 4095}, units=UNITS,
                  bounds={'years': '1601..4095 (all, symbolic)'}))
    obs.append(Ob('month-lemmas', H, 'h_month_lemmas', {'YLO': 1601, 'YHI': 4095}, units=UNITS,
                  bounds={'years': '1601..4095 x 12 months (all, symbolic)'}))
    wins = core.year_windows(ctx.tier, ctx.seed, step=36)
    srcs = ['ymd', 'ymcw', 'ywd', 'yd', 'daisy', 'ldn', 'mdn']
    tgts = ['ymd', 'ymcw', 'ywd', 'yd', 'daisy', 'ldn', 'mdn']
    for (lo, hi) in wins:
        d = {'YLO': lo, 'YHI': hi}
        b = {'days': 'every day of %d-01-01..%d-12-31 (symbolic)' % (lo, hi)}
        for s in srcs:
            for t in tgts:
                obs.append(Ob('dconv:%s->%s:%d-%d' % (s, t, lo, hi), H, 'h_dconv',
                              dict(d, SRC=REPS[s], TGT=REPS[t]), units=UNITS, bounds=b,
                              group='dconv:%s->%s' % (s, t),
                              kf=['daisy_tail'] if s in DAYNUM and t not in DAYNUM and hi >= 4094 else []))
            if s in ('ymd', 'ymcw', 'ywd', 'yd', 'daisy'):
                obs.append(Ob('kernels:%s:%d-%d' % (s, lo, hi), H, 'h_kernels',
                              dict(d, SRC=REPS[s]), units=UNITS, bounds=b,
                              group='kernels:%s' % s, kf=['daisy_tail'] if s in DAYNUM and hi >= 4094 else []))
            if s in ('ymd', 'ymcw', 'ywd', 'yd', 'daisy'):
              obs.append(Ob('getters:%s:%d-%d' % (s, lo, hi), H, 'h_getters',
                          dict(d, SRC=REPS[s]), units=UNITS, bounds=b,
                          group='getters:%s' % s, kf=['daisy_tail'] if s in DAYNUM and hi >= 4094 else []))
    # (4) text of each numeric specifier denotes the calendar's value (ymd-held values here;
    # C02 shows every other representation prints the same text)
    from .C02 import VALSPEC, q
    sw = core.year_windows_full(100) if ctx.tier == 'thorough' else [(1896, 1904), (1996, 2004), (4088, 4095)]
    for (lo, hi) in sw:
        for sp, sel in VALSPEC:
            obs.append(Ob('strf-value:%s:ymd:%d-%d' % (sp, lo, hi), 'C02_strf.c', 'h_strf_value',
                          {'YLO': lo, 'YHI': hi, 'FMT': q(sp), 'VAL': sel, 'REP': REPS['ymd']},
                          units=UNITS, unwind=26, group='strf-value:%s' % sp,
                          bounds={'days': 'every day of %d..%d' % (lo, hi), 'format': sp}))
    return obs


def run(tier, seed):
    return core.run_property(
        'C01', tier, seed, make_obs,
        level_note=('bounded model checking, complete over the finite supported range in the thorough '
                    'tier (windows partition 1601..4095); quick tier: century/400-year/range-end windows'),
        assumptions=['reference calendar model h/ref.h (validated against Python datetime for every day)',
                     'enum-typed bit-fields rewritten to unsigned int in the goto-cc copy (layout probe identical)',
                     'JDN float text (%.6f) outside the claim'],
        stubs=[], pre=core.ref_selftest)
