# C17 -- dategrep selects exactly the lines whose dates satisfy the expression
from .. import core
from ..core import Ob

H = 'C17_dexpr.c'
UNITS = ['lib/date-core.c', 'lib/time-core.c', 'lib/dt-core.c', 'lib/strops.c', 'lib/token.c', 'lib/leaps.c',
         'lib/dt-locale.c']


def shapes(n, first=0):
    """all binary AND/OR trees over leaves first..first+n-1 in order"""
    if n == 1:
        return ['L(%d)' % first]
    out = []
    for k in range(1, n):
        for a in shapes(k, first):
            for b in shapes(n - k, first + k):
                out.append('AND(%s, %s)' % (a, b))
                out.append('OR(%s, %s)' % (a, b))
    return out


def negations(t):
    """every placement of negation flags on the nodes of t (incl. none)"""
    import re
    # positions of every constructor: L( AND( OR(
    toks = [m.start() for m in re.finditer(r'(AND|OR|L)\(', t)]
    out = []
    for mask in range(1 << len(toks)):
        s = t
        # wrap from the right so that offsets stay valid
        for bit, pos in reversed(list(enumerate(toks))):
            if mask >> bit & 1:
                # find the matching close paren
                depth = 0
                j = pos
                while True:
                    if s[j] == '(':
                        depth += 1
                    elif s[j] == ')':
                        depth -= 1
                        if depth == 0:
                            break
                    j += 1
                s = s[:pos] + 'NOT(' + s[pos:j + 1] + ')' + s[j + 1:]
        out.append(s)
    return out


def depth(t):
    d = m = 0
    for c in t:
        if c == '(':
            d += 1
            m = max(m, d)
        elif c == ')':
            d -= 1
    return m


def not_action(ctx):
    """the semantic action of `TOK_NOT stmt' as written in src/dexpr-parser.y, with the operand spelt (a.d)"""
    import os
    import re
    y = open(os.path.join(ctx.snap, 'src', 'dexpr-parser.y')).read()
    m = re.search(r'\|\s*TOK_NOT\s+stmt\s*\{(.*?)\}', y, re.S)
    if not m:
        raise core.Broken('cannot find the action of TOK_NOT stmt in src/dexpr-parser.y')
    act = ' '.join(m.group(1).split()).rstrip(';')
    act2 = act.replace('($<dex>$ = $<dex>2)', '(a.d)').replace('$<dex>$', '(a.d)').replace('$<dex>2', '(a.d)')
    if '$' in act2:
        raise core.Broken('cannot translate the action of TOK_NOT stmt: %r' % act)
    ctx.not_action = act2
    return {'grammar_not_action': {'source': act, 'as_compiled_into_the_harness': act2}}


def make_obs(ctx):
    trees = ['NOT(NOT(L(0)))', 'NOT(NOT(NOT(L(0))))', 'NOT(NOT(OR(L(0), L(1))))', 'AND(NOT(NOT(L(0))), L(1))',
             'NOT(OR(NOT(NOT(L(0))), L(1)))']
    for n in (1, 2):
        for t in shapes(n):
            trees += negations(t)
    three = []
    for t in shapes(3):
        three += negations(t)
    if ctx.tier == 'thorough':
        trees += three
        four = ['AND(OR(L(0), L(1)), OR(L(2), L(3)))', 'OR(OR(L(0), L(1)), OR(L(2), L(3)))',
                'AND(AND(L(0), L(1)), AND(L(2), L(3)))', 'AND(L(0), AND(L(1), AND(L(2), L(3))))',
                'OR(AND(L(0), L(1)), AND(L(2), L(3)))', 'NOT(AND(OR(L(0), L(1)), OR(L(2), L(3))))',
                'AND(OR(L(0), L(1)), AND(L(2), L(3)))', 'AND(L(0), OR(L(1), OR(L(2), L(3))))',
                'AND(AND(L(0), OR(L(1), L(2))), L(3))', 'AND(AND(OR(L(0), L(1)), L(2)), L(3))',
                'AND(L(0), AND(OR(L(1), L(2)), L(3)))', 'AND(AND(L(0), L(1)), OR(L(2), L(3)))',
                'AND(AND(AND(L(0), L(1)), OR(L(2), L(3))), L(4))', 'AND(OR(L(0), L(1)), AND(OR(L(2), L(3)), L(4)))']
        trees += four
    else:
        import random
        rnd = random.Random(ctx.seed)
        pick = ['AND(AND(L(0), L(1)), L(2))', 'AND(L(0), AND(L(1), L(2)))', 'AND(OR(L(0), L(1)), L(2))',
                'AND(L(0), OR(L(1), L(2)))', 'NOT(AND(L(0), OR(L(1), L(2))))', 'OR(AND(L(0), L(1)), L(2))',
                'OR(L(0), NOT(OR(L(1), L(2))))', 'AND(NOT(OR(L(0), L(1))), L(2))',
                'AND(OR(L(0), L(1)), OR(L(2), L(3)))',
                # a disjunction inside a chain of conjunctions (reported by a seeding sub-agent on the unchanged binary)
                'AND(AND(L(0), OR(L(1), L(2))), L(3))', 'AND(AND(OR(L(0), L(1)), L(2)), L(3))']
        trees += pick + rnd.sample(three, 6)
    obs = []
    seen = set()
    for t in trees:
        if t in seen:
            continue
        seen.add(t)
        dp = depth(t)
        nl = t.count('L(')
        masks = {0: 'year-atoms', (1 << nl) - 1: 'date-atoms'}
        if nl > 1:
            masks[0b0101 & ((1 << nl) - 1)] = 'mixed-atoms'
        for km, kn in masks.items():
            obs.append(Ob('tree:%s:%s' % (t.replace(' ', ''), kn), H, 'h_dexpr',
                          {'TREE': t, 'NLEAF': nl, 'KINDMASK': km, 'GRAMMAR_NOT_ACTION': ctx.not_action}, units=UNITS, unwind=dp + 6,
                          group='trees:%d-leaf' % nl, timeout=600,
                          remove_bodies=core.prune_cals(['ymd']),
                          bounds={'tree': t, 'atoms': kn + ': operator in = != < <= > >= (symbolic), %Y constant or ymd date literal 1998..2002 (symbolic)',
                                  'line value': 'any date 1998..2002', 'recursion/unwind': dp + 6},
                          kfwhole='dexpr_' + core.treekey(t) + '_' + kn.split('-')[0]))
    return obs


def run(tier, seed):
    return core.run_property(
        'C17', tier, seed, make_obs, pre=not_action,
        level_note=('expression trees enumerated (the program), atoms and line value symbolic; one query per tree '
                    'decides matches(simplify(T), v) == [[T]](v) for all atoms and values, plus single release of nodes'),
        assumptions=['flex/bison front end not encoded: trees are built as the grammar builds them (one zeroed node per operator, negation flag on the operand)',
                     'typed node pool replaces calloc/free', 'atoms: year specifier or date literal; line value a ymd date'],
        stubs=['calloc/free: harness node pool with double-free detection', 'dexpr_parse: not used'])
