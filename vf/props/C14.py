# C14 -- leap-second aware results follow the leap-second table
import os
import re

from .. import core
from ..core import Ob
from .C01 import REPS

H = 'C14_leaps.c'
TZ_UNITS = ['lib/leaps.c']
DT_UNITS = ['lib/date-core.c', 'lib/time-core.c', 'lib/strops.c', 'lib/token.c', 'lib/leaps.c', 'lib/dt-locale.c']


def pre(ctx):
    """leap-seconds.list as parsed here (NTP seconds, TAI-UTC) -> expected arrays"""
    ep, co = [], []
    with open(os.path.join(ctx.snap, 'lib', 'leap-seconds.list')) as fh:
        for ln in fh:
            m = re.match(r'\s*(\d+)\s+(\d+)', ln)
            if m:
                ep.append(int(m.group(1)) - 2208988800)
                co.append(int(m.group(2)))
    os.makedirs(ctx.gen, exist_ok=True)
    with open(os.path.join(ctx.gen, 'leaps_expected.h'), 'w') as fh:
        fh.write('#define VF_NEXPECT %d\n' % len(ep))
        fh.write('static const long long vf_expect_epoch[] = {%s};\n' % ', '.join('%dLL' % e for e in ep))
        fh.write('static const int vf_expect_corr[] = {%s};\n' % ', '.join(map(str, co)))
    return {'leap_seconds_list_entries': len(ep)}


def make_obs(ctx):
    obs = []
    obs.append(Ob('table', H, 'h_table', {'VF_EXPECT': 1}, units=TZ_UNITS, unwind=40, group='table',
                  bounds={'rows': 'all rows of the generated table (concrete)'}))
    obs.append(Ob('bisect:s', H, 'h_bisect_s', {}, units=TZ_UNITS, unwind=40, group='bisect',
                  bounds={'key': 'every int32 key'}))
    obs.append(Ob('bisect:d+ymd', H, 'h_bisect_d', {}, units=TZ_UNITS, unwind=40, group='bisect',
                  bounds={'key': 'every uint32 key'}))
    obs.append(Ob('tai-offs', H, 'h_tai_offs', {}, units=TZ_UNITS, unwind=40, group='tai-offs', kf=['tai_y2038'],
                  bounds={'instant': 'every Unix second from 1900 to 2^40 (year ~36800)'}))
    obs.append(Ob('tai-monotone', H, 'h_tai_monotone', {}, units=TZ_UNITS, unwind=40, group='tai-offs', kf=['tai_y2038'],
                  bounds={'instants': 'every ordered pair in that range'}))
    obs.append(Ob('dtadd-rs:daisy:all', H, 'h_dtadd_rs', {'WITH_DTCORE': 1, 'REP': REPS['daisy']}, units=DT_UNITS,
                  unwind=40, group='dtadd-rs:daisy', timeout=900, remove_bodies=core.prune_cals(['daisy']),
                  bounds={'start': 'within 3 s either side of every listed leap second (entry symbolic)',
                          'N': '-5..5 real seconds'}))
    obs.append(Ob('dtdiff-rs:daisy:all', H, 'h_dtdiff_rs', {'WITH_DTCORE': 1, 'REP': REPS['daisy']}, units=DT_UNITS,
                  unwind=40, group='dtdiff-rs:daisy', timeout=900, remove_bodies=core.prune_cals(['daisy']),
                  bounds={'instants': 'two instants within 20 s either side of any listed leap second (entry symbolic), either order'}))
    idxs = range(2, 29) if ctx.tier == 'thorough' else ()
    for i in idxs:
        obs.append(Ob('dtadd-rs:ymd:entry%d' % i, H, 'h_dtadd_rs', {'WITH_DTCORE': 1, 'REP': REPS['ymd'], 'IDX': i},
                      units=DT_UNITS, unwind=40, group='dtadd-rs:ymd', timeout=1800, memgb=6,
                      remove_bodies=core.prune_cals(['ymd']),
                      bounds={'start': 'within 3 s either side of table entry %d' % i, 'N': '-5..5 real seconds'}))
    return obs


def run(tier, seed):
    return core.run_property(
        'C14', tier, seed, make_obs, pre=pre,
        level_note=('bounded model checking over the real generated table: bisection for every 32-bit key, '
                    'offsets for every 64-bit instant up to 2^40, additions around every table entry'),
        assumptions=['lib/leap-seconds.list parsed independently by the runner is the ground truth for the table',
                     'ltrcc (the generator) itself is not encoded, its output is'],
        stubs=[])
