# C19 -- zone files and zone maps load safely and look up faithfully
from .. import core
from ..core import Ob


BIG = [0xFFFFFFFF, 0x40000000]


def tzm_loops(ctx):
    """loop ids of tzm_find by what the source line says (robust against edits of lib/tzmap.c)"""
    import re
    from ..core import sh
    ob = Ob('probe', 'C19_tzm.c', 'h_tzm_find', {'SHAPE': '{1}', 'MAXW': 1, 'QLEN': 1, 'ZSZ': 8})
    gb = ctx.compile_gb(ob)
    out = sh(['goto-instrument', '--show-loops', gb], timeout=300).stdout
    want = {'rewind': 'tp[-1]', 'cmp': '*mp == *tp', 'outer': 'while (sp < ep)', 'skip': 'for (; *tp; tp++)'}
    got = {}
    for m in re.finditer(r'Loop (tzm_find\.\d+):\n\s+file (\S+) line (\d+)', out):
        try:
            lines = open(m.group(2)).read().splitlines()
        except OSError:
            continue
        n = int(m.group(3))
        text = ' '.join(lines[max(0, n - 3):n + 2])
        for k, pat in want.items():
            if pat in lines[n - 1] or (k not in got and pat in text):
                got.setdefault(k, m.group(1))
                break
    if not all(k in got for k in ('rewind', 'cmp', 'outer')):
        raise core.Broken('cannot map the loops of tzm_find: %r' % got)
    ctx.tzm_loops = got
    return {'tzm_find_loops': got}


def make_obs(ctx):
    obs = []
    sizes = (0, 4, 20, 21, 43, 44, 45, 50, 53, 59, 64, 88, 98) if ctx.tier == 'quick' else list(range(0, 129))

    def add(sz, tag, d, what):
        d = dict(d, SIZE=sz)
        obs.append(Ob('zif-open:size%d:%s' % (sz, tag), 'C19_zif.c', 'h_zif_open', d,
                      units=['lib/leaps.c'], unwind=12, mem=True, replay='asan', flags=['--max-field-sensitivity-array-size', '160'], group='zif-open:' + tag.split(':')[0],
                      unwindset=['h_zif_open.0:%d' % (sz + 2), 'h_zif_open.1:%d' % (sz + 2)], timeout=300,
                      bounds={'image': '%d bytes, content symbolic except: %s' % (sz, what)}))
    for sz in sizes:
        add(sz, 'any', {}, 'nothing (files without the magic, or too short for header counts to matter)') if sz < 44 else None
        if sz < 5:
            continue
        # version 1 files: counts enumerated
        for ntr in (0, 1, 3) + tuple(BIG[:1]):
            for nty in (0, 1, 2) + tuple(BIG[1:]):
                add(sz, 'v1:ntr%x.nty%x' % (ntr, nty),
                    {'MAGIC': 1, 'H1_NTR': ntr, 'H1_NTY': nty, 'H1_CHR': 0, 'H1_NLP': 0, 'H1_STD': 0, 'H1_GMT': 0},
                    'TZif v1 magic, timecnt=%#x typecnt=%#x' % (ntr, nty))
        # version 2 files: first block (ntr1, nty1), then a second header with enumerated counts
        for (n1, y1, chr1) in ((0, 0, 0), (1, 1, 4), (0, 0, BIG[0])):
            off = 44 + n1 * 5 + y1 * 6 + (chr1 if chr1 < 1000 else 0)
            for ntr in (0, 1, 2, BIG[0]):
                for nty in (0, 1):
                    d = {'MAGIC': 2, 'H1_NTR': n1, 'H1_NTY': y1, 'H1_CHR': chr1, 'H1_NLP': 0, 'H1_STD': 0, 'H1_GMT': 0}
                    if chr1 < 1000:
                        d.update({'H2_OFF': off, 'H2_NTR': ntr, 'H2_NTY': nty})
                    elif (ntr, nty) != (0, 0):
                        continue
                    if ntr == BIG[0] and nty == 1 and sz >= 88:
                        # cbmc: "array too large for flattening" on the (unreachable) allocation
                        continue
                    add(sz, 'v2:%x.%x.%x:ntr%x.nty%x' % (n1, y1, chr1, ntr, nty), d,
                        'TZif v2 magic, first block counts (%d,%d,charcnt %#x), second header timecnt=%#x typecnt=%#x' % (
                            n1, y1, chr1, ntr, nty))
    # zone maps: tzm_open + tzm_find on well-formed compiled maps with symbolic keys
    shapes = [(1,), (1, 1), (1, 1, 1), (2, 1), (1, 2)] if ctx.tier == 'quick' else \
             [(1,), (2,), (1, 1), (1, 2), (2, 1), (1, 1, 1), (1, 2, 1), (2, 1, 1), (1, 1, 2), (1, 1, 1, 1)]
    for sh in shapes:
        for ql in ((1, 3, 4, 5) if ctx.tier == 'quick' else (1, 2, 3, 4, 5, 7, 8)):
            obs.append(Ob('tzm-find:%s:q%d' % ('-'.join(map(str, sh)), ql), 'C19_tzm.c', 'h_tzm_find',
                          {'SHAPE': '{%s}' % ','.join(map(str, sh)), 'MAXW': sum(sh), 'QLEN': ql, 'ZSZ': 8}, unwind=4 * sum(sh) + 4 * len(sh) + 30,
                          unwindset=['%s:%d' % (ctx.tzm_loops['rewind'], 4 * max(sh) + 6), '%s:%d' % (ctx.tzm_loops['cmp'], ql + 3),
                                     '%s:%d' % (ctx.tzm_loops['outer'], len(sh) + 2)] +
                                    (['%s:%d' % (ctx.tzm_loops['skip'], 4 * max(sh) + 3)] if 'skip' in ctx.tzm_loops else []),
                          mem=True, replay='asan', group='tzm-find', timeout=900,
                          bounds={'map': '%d records with keys of %s words (bytes symbolic, sorted), zone offsets symbolic' % (len(sh), '/'.join(map(str, sh))),
                                  'lookup': 'any key of %d bytes in an object of exactly %d bytes' % (ql, ql + 1)}))
    # zone maps: any file with the magic is refused or looked up inside the image
    # sizes beyond 32 bytes take 6..9 minutes per query (two or more symbolic records)
    for sz in ((15, 16, 24, 28, 32) if ctx.tier == 'quick' else tuple(range(12, 33))):
        fit = [o for o in range(4, max(sz - 16 - 8, 0) + 1, 4)]
        offs = sorted(set(fit + [0, 3, 5, max(sz - 16, 0), sz, 0x7fffff00, 0xffffffff]))
        for ho in offs:
            for ql in ((1, 4) if ctx.tier == 'quick' else (1, 2, 4, 5)):
                if ho not in fit and ql != 1:
                    continue
                nw = max((sz - 16 - ho) // 4, 1) if ho in fit else 1
                obs.append(Ob('tzm-any:size%d:off%x:q%d' % (sz, ho, ql), 'C19_tzm.c', 'h_tzm_any', {'SIZE': sz, 'HOFF': '%dU' % ho, 'QLEN': ql, 'MAXW': 1},
                              unwind=max(sz, 16) + 4,
                              unwindset=['%s:%d' % (ctx.tzm_loops['rewind'], 4 * nw + 2), '%s:%d' % (ctx.tzm_loops['cmp'], ql + 3),
                                         '%s:%d' % (ctx.tzm_loops['outer'], nw + 2)] +
                                        (['%s:%d' % (ctx.tzm_loops['skip'], 4 * nw + 2)] if 'skip' in ctx.tzm_loops else []),
                              mem=True, replay='asan', group='tzm-any', timeout=900, memgb=6,
                              bounds={'image': '%d bytes, arbitrary after the magic, header offset field %#x' % (sz, ho), 'lookup': 'any key of %d bytes' % ql}))
    return [o for o in obs if o is not None]


def run(tier, seed):
    return core.run_property(
        'C19', tier, seed, make_obs, pre=tzm_loops,
        level_note=('bounded model checking of the loaders on arbitrary file images of each exact size '
                    '(heap object of exactly that size, so any access outside the image is a bounds violation)'),
        assumptions=['allocation never fails', 'images up to 96 bytes'],
        stubs=['open: succeeds', 'fstat: reports the image size', 'mmap: returns the image object', 'munmap/close: no-ops'])
