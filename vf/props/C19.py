# C19 -- zone files and zone maps load safely and look up faithfully
from .. import core
from ..core import Ob


BIG = [0xFFFFFFFF, 0x40000000]


def make_obs(ctx):
    obs = []
    sizes = (0, 4, 20, 21, 43, 44, 45, 50, 53, 59, 64, 88, 98) if ctx.tier == 'quick' else list(range(0, 129))

    def add(sz, tag, d, what):
        d = dict(d, SIZE=sz)
        obs.append(Ob('zif-open:size%d:%s' % (sz, tag), 'C19_zif.c', 'h_zif_open', d,
                      units=['lib/leaps.c'], unwind=12, mem=True, replay='asan', flags=['--max-field-sensitivity-array-size', '160'], group='zif-open:' + tag.split(':')[0],
                      unwindset=['h_zif_open.0:%d' % (sz + 2), 'h_zif_open.1:%d' % (sz + 2)], timeout=300,
                      bounds={'image': '%d bytes, content symbolic except: %s' % (sz, what)}))
    for sz in sizes:
        add(sz, 'any', {}, 'nothing (files without the magic, or too short for header counts to matter)') if sz < 44 else None
        if sz < 5:
            continue
        # version 1 files: counts enumerated
        for ntr in (0, 1, 3) + tuple(BIG[:1]):
            for nty in (0, 1, 2) + tuple(BIG[1:]):
                add(sz, 'v1:ntr%x.nty%x' % (ntr, nty),
                    {'MAGIC': 1, 'H1_NTR': ntr, 'H1_NTY': nty, 'H1_CHR': 0, 'H1_NLP': 0, 'H1_STD': 0, 'H1_GMT': 0},
                    'TZif v1 magic, timecnt=%#x typecnt=%#x' % (ntr, nty))
        # version 2 files: first block (ntr1, nty1), then a second header with enumerated counts
        for (n1, y1, chr1) in ((0, 0, 0), (1, 1, 4), (0, 0, BIG[0])):
            off = 44 + n1 * 5 + y1 * 6 + (chr1 if chr1 < 1000 else 0)
            for ntr in (0, 1, 2, BIG[0]):
                for nty in (0, 1):
                    d = {'MAGIC': 2, 'H1_NTR': n1, 'H1_NTY': y1, 'H1_CHR': chr1, 'H1_NLP': 0, 'H1_STD': 0, 'H1_GMT': 0}
                    if chr1 < 1000:
                        d.update({'H2_OFF': off, 'H2_NTR': ntr, 'H2_NTY': nty})
                    elif (ntr, nty) != (0, 0):
                        continue
                    if ntr == BIG[0] and nty == 1 and sz >= 88:
                        # cbmc: "array too large for flattening" on the (unreachable) allocation
                        continue
                    add(sz, 'v2:%x.%x.%x:ntr%x.nty%x' % (n1, y1, chr1, ntr, nty), d,
                        'TZif v2 magic, first block counts (%d,%d,charcnt %#x), second header timecnt=%#x typecnt=%#x' % (
                            n1, y1, chr1, ntr, nty))
    return [o for o in obs if o is not None]


def run(tier, seed):
    return core.run_property(
        'C19', tier, seed, make_obs,
        level_note=('bounded model checking of the loaders on arbitrary file images of each exact size '
                    '(heap object of exactly that size, so any access outside the image is a bounds violation)'),
        assumptions=['allocation never fails', 'images up to 96 bytes'],
        stubs=['open: succeeds', 'fstat: reports the image size', 'mmap: returns the image object', 'munmap/close: no-ops'])
