# C16 -- dateround lands on the nearest requested target and is idempotent
from .. import core
from ..core import Ob
from .C01 import REPS

H = 'C16_round.c'
UNITS = ['lib/date-core.c', 'lib/time-core.c', 'lib/dt-core.c', 'lib/strops.c', 'lib/token.c', 'lib/leaps.c',
         'lib/dt-locale.c', 'lib/dt-core-tz-glue.c']
DUR = {'h': 'DT_DURH', 'm': 'DT_DURM', 's': 'DT_DURS'}


def make_obs(ctx):
    obs = []
    P = core.prune_cals
    for u in ('h', 'm', 's'):
        obs.append(Ob('tround-value:%s' % u, H, 'h_tround_value', {'UNIT': DUR[u]}, units=UNITS, group='tround-value', unwind=4,
                      bounds={'time': 'every h:m:s', 'target': 'every value of the field', 'direction/next': 'all 4'},
                      remove_bodies=P(['ymd'])))
    divs = [n for n in range(1, 86401) if 86400 % n == 0]
    if ctx.tier == 'quick':
        divs = [1, 2, 15, 60, 90, 300, 900, 3600, 7200, 28800, 43200, 86400]
    for n in divs:
        obs.append(Ob('tround-cocl:%d' % n, H, 'h_tround_cocl', {'NSEC': n}, units=UNITS, group='tround-cocl',
                      bounds={'time': 'every h:m:s', 'N': '%d s' % n, 'direction/next': 'all 4'},
                      remove_bodies=P(['ymd'])))
    tb = 36 if ctx.tier == 'thorough' else 32
    # odd multiples of 675 s did not finish inside 600 s at 36 bits (64-bit division by a non-power-of-two
    # times 675): they are run at 32 bits
    slow = (675, 1350, 2700, 5400, 10800, 21600, 43200)
    for n in (divs if ctx.tier == 'thorough' else [1, 60, 900, 3600, 86400]):
        obs.append(Ob('sxround:%d' % n, H, 'h_sxround', {'NSEC': n, 'TBITS': 32 if n in slow else tb}, units=UNITS, group='sxround',
                      timeout=600 if ctx.tier == 'quick' else 1800,
                      bounds={'epoch': '|t| < 2^%d (negative epochs included)' % (32 if n in slow else tb), 'N': '%d s' % n, 'direction/next': 'all 4'},
                      remove_bodies=P(['ymd'])))
    wins = core.year_windows(ctx.tier, ctx.seed, step=10, quick=[(1999, 2000), (1900, 1900), (2100, 2100)])
    if ctx.tier == 'quick':
        wins = wins[:3]
    for (lo, hi) in wins:
        d = {'YLO': lo, 'YHI': hi}
        b = {'dates': 'every day of %d..%d' % (lo, hi), 'target': 'every value', 'direction/next': 'all 4'}
        obs.append(Ob('dround-dom:%d-%d' % (lo, hi), H, 'h_dround_dom', d, units=UNITS, group='dround-dom', bounds=b,
                      remove_bodies=P(['ymd'])))
        obs.append(Ob('dround-mon:%d-%d' % (lo, hi), H, 'h_dround_mon', d, units=UNITS, group='dround-mon', bounds=b,
                      remove_bodies=P(['ymd'])))
        obs.append(Ob('dround-week:%d-%d' % (lo, hi), H, 'h_dround_week', d, units=UNITS, group='dround-week',
                      bounds=dict(b, target='ISO week 1..52 (53 is outside: not every year has it)'),
                      remove_bodies=P(['ywd'])))
        obs.append(Ob('dround-bday:%d-%d' % (lo, hi), H, 'h_dround_bday', d, units=UNITS, group='dround-bday',
                      bounds=dict(b, dates='every business-day-of-month date of %d..%d' % (lo, hi),
                                  target='business day 1..20 (higher ones are outside: not every month has them)'),
                      remove_bodies=P(['bizda'])))
        for nm in ((1, 3, 12) if ctx.tier == 'quick' else (1, 2, 3, 4, 6, 12)):
            obs.append(Ob('dround-cocl-mon:%d:%d-%d' % (nm, lo, hi), H, 'h_dround_cocl_mon', dict(d, NMON=nm), units=UNITS,
                          group='dround-cocl-mon', bounds=dict(b, target='/%dmo, both directions' % nm), remove_bodies=P(['ymd'])))
        # weekday rounding goes through day numbers: dates from 4094 on fall under the day-number cut-off
        # (C01's listed finding daisy_tail) and are outside here
        if lo <= 4093:
            whi = min(hi, 4093)
            for rp in ('ymd', 'ywd', 'daisy'):
                obs.append(Ob('dround-wday:%s:%d-%d' % (rp, lo, whi), H, 'h_dround_wday', dict(d, YHI=whi, REP=REPS[rp]), units=UNITS,
                              group='dround-wday:' + rp, bounds=dict(b, dates='every day of %d..%d' % (lo, whi)),
                              remove_bodies=P([rp, 'daisy'])))
        for u in ('h', 'm', 's'):
            obs.append(Ob('idem:%s:%d-%d' % (u, lo, hi), H, 'h_idem', dict(d, UNIT=DUR[u]), units=UNITS, unwind=4,
                          group='idem', bounds=dict(b, time='every h:m:s'), remove_bodies=P(['ymd'])))
    return obs


def run(tier, seed):
    return core.run_property(
        'C16', tier, seed, make_obs,
        level_note=('bounded model checking of the static rounding functions of src/dround.c; the reference is the '
                    'relation "field equals target, finer fields kept, on the requested side, no nearer candidate"'),
        assumptions=['reference calendar h/ref.h', 'targets given as parsed durations (dt_io_strpdtrnd text parsing not covered)',
                     'business-day targets above 20 and ISO week 53 not covered (they do not exist in every month/year and the statement names no replacement)',
                     'weekday rounding of dates from 4094 on is outside (day-number cut-off, see C01 daisy_tail)'],
        stubs=[])
