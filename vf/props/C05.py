# C05 -- datediff is the inverse of dateadd
from .. import core
from ..core import Ob
from .C01 import REPS, UNITS

H = 'C05_diff.c'


def make_obs(ctx):
    obs = []
    if ctx.tier == 'thorough':
        ws = core.year_windows_full(8)
        pairs = []
        for (lo, hi) in ws:
            pairs.append(((lo, hi), (lo, hi)))
            pairs.append(((lo, hi), (hi + 1, min(hi + 8, 4095)))) if hi < 4095 else None
            pairs.append(((lo, hi), (min(hi + 30, 4095), min(hi + 33, 4095)))) if hi + 30 <= 4095 else None
    else:
        pairs = [((2000, 2000), (2000, 2001)), ((1999, 1999), (2003, 2004)), ((1896, 1896), (1900, 1900)),
                 ((2011, 2012), (2012, 2012)), ((2000, 2000), (2039, 2040))]
    for (w1, w2) in [p for p in pairs if p]:
        d = {'YLO': w1[0], 'YHI': w1[1], 'YLO2': w2[0], 'YHI2': w2[1]}
        b = {'pairs': 'every pair (A in %d..%d, B in %d..%d)' % (w1 + w2)}
        tag = '%d-%d.%d-%d' % (w1 + w2)
        for rp in ('ymd', 'ymcw', 'ywd', 'yd', 'daisy'):
            obs.append(Ob('diff-days:%s:%s' % (rp, tag), H, 'h_diff_days', dict(d, REP=REPS[rp]), units=UNITS,
                          group='diff-days:' + rp, bounds=b))
        gap = w2[1] - w1[0] + 1
        obs.append(Ob('diff-ymd:%s' % tag, H, 'h_diff_ymd', d, units=UNITS, unwind=max(6, gap + 3), group='diff-ymd',
                      timeout=600, bounds=dict(b, earlier='day of month <= 28')))
        obs.append(Ob('diff-yd:%s' % tag, H, 'h_diff_yd', d, units=UNITS, unwind=18, group='diff-yd', timeout=600, kf=['yd_diff_leap_janfeb'],
                      bounds=dict(b, earlier='day of month <= 28')))
        obs.append(Ob('diff-ywd:%s' % tag, H, 'h_diff_ywd', d, units=UNITS, unwind=6, group='diff-ywd', timeout=600, kf=['ywd_diff_week53'],
                      bounds=b))
    # date-times in seconds: the difference of any two instants of the range is the difference of their
    # Unix seconds (harness shared with C11), which is what the second-wise adder of C11 inverts
    from .C11 import UNITS as TUNITS
    obs.append(Ob('dtdiff-seconds:any-pair', 'C11_time.c', 'h_dtdiff', dict(KMAX=911280), units=TUNITS, group='dtdiff-seconds',
                  timeout=600, remove_bodies=core.prune_cals(['daisy']),
                  bounds={'first': 'every second of every day 1601..4095 (day-number held)', 'second': 'any other second of the range'}))
    # what ddiff prints for year/month formats: the split of the ymd duration record into the requested
    # units (harness of C06, unit src/ddiff.c), which is what dadd is then given back
    from .C06 import UNITS as DUNITS
    for fl in range(0, 8):
        tag = ''.join('Yqm'[i] for i in range(3) if fl >> i & 1) or '-'
        obs.append(Ob('ddiff-split-ymd:%s' % tag, 'C06_ddiff.c', 'h_precalc_ymd', {'FLAGS': fl}, units=DUNITS, group='ddiff-split-ymd',
                      bounds={'duration': 'years <= 2494, months <= 11, days <= 30, time < 1 day, either sign',
                              'units requested': tag + ' d H M S'}))
    return obs


def run(tier, seed):
    return core.run_property(
        'C05', tier, seed, make_obs,
        level_note=('bounded model checking over pairs of symbolic dates from two year windows: the duration returned by '
                    'dt_ddiff, re-applied largest unit first with the real adders, lands on the later date; swapped '
                    'operands give the same magnitude with the sign flipped'),
        assumptions=['reference h/ref.h', 'month/year formats: earlier date has day of month <= 28 (as the property states)',
                     'business days: C07; date-times: the seconds difference of any two instants is checked here (harness of C11), the second-wise adder in C11; ymcw month differences not covered'],
        stubs=[])
