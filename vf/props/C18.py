# C18 -- stream filters are transparent and independent of input chunking
from .. import core
from ..core import Ob


def map_loops(ctx):
    """loop ids by what the source line says, so that edits to prchunk.c or the harness do not shift the bounds silently"""
    import re
    from ..core import sh
    ob = Ob('probe', 'C18_chunk.c', 'h_chunking',
            {'VERIF_MAX_NLINES': 2, 'VERIF_MAX_LLEN': 4, 'VERIF_CHUNK_SIZE': 2, 'SLEN': 3, 'NREADS': 3})
    gb = ctx.compile_gb(ob)
    out = sh(['goto-instrument', '--show-loops', gb], timeout=300).stdout
    want = {'lines': 'while (off < bno)', 'reads': 'YIELD(1);', 'consume': 'while (prchunk_haslinep(ctx)'}
    got = {}
    for m in re.finditer(r'Loop ((?:prchunk_fill|h_chunking)\.\d+):\n\s+file (\S+) line (\d+)', out):
        try:
            lines = open(m.group(2)).read().splitlines()
            # the reported line may be off by a few lines against the rewritten copy
            n = int(m.group(3))
            text = lines[n - 1] if m.group(1).startswith('h_') else ' '.join(lines[max(0, n - 4):n + 3])
        except (OSError, IndexError):
            continue
        for k, pat in want.items():
            if pat in text:
                got.setdefault(k, []).append(m.group(1))
    if any(len(got.get(k, [])) != 1 for k in want):
        raise core.Broken('cannot map the loops of prchunk_fill/h_chunking: %r' % got)
    ctx.loops = {k: v[0] for k, v in got.items()}
    return {'loops': ctx.loops}


def make_obs(ctx):
    obs = []
    # (window lines, line length factor, chunk, stream bytes)
    cfgs = [(2, 4, 2, 3), (2, 4, 2, 4)]
    if ctx.tier == 'thorough':
        # (3, 3, 2, 5) needs more than the 12 GB a query may use here
        cfgs += [(3, 3, 3, 4), (2, 3, 2, 5), (3, 3, 2, 4), (2, 4, 3, 5)]
    for (nl, ll, ch, sl) in cfgs:
        d = {'VERIF_MAX_NLINES': nl, 'VERIF_MAX_LLEN': ll, 'VERIF_CHUNK_SIZE': ch, 'SLEN': sl, 'NREADS': sl}
        obs.append(Ob('chunking:win%dx%d:chunk%d:stream%d' % (nl, ll, ch, sl), 'C18_chunk.c', 'h_chunking', d,
                      unwind=sl + 4, mem=True, replay='asan', group='chunking', memgb=10, timeout=1500 if ctx.tier == 'quick' else 14400,
                      unwindset=['%s:%d' % (ctx.loops['lines'], nl + 2), '%s:%d' % (ctx.loops['reads'], sl + 3),
                                 '%s:%d' % (ctx.loops['consume'], nl + 2)],
                      bounds={'window': '%d lines x %d bytes = %d bytes (scaled through the DATEUTILS_VERIF hook)' % (nl, ll, nl * ll),
                              'chunk': ch, 'stream': '%d symbolic bytes over {LF, CR, a, b}' % sl,
                              'schedule': 'every read() returns an arbitrary count in 1..min(chunk, remaining)'}))
    return obs


def run(tier, seed):
    return core.run_property(
        'C18', tier, seed, make_obs, pre=map_loops,
        level_note=('bounded model checking of the chunk reader on scaled constants: stream bytes and the sizes of all '
                    'read() results are symbolic, so every way of cutting the stream is covered inside the bound'),
        assumptions=['the real constants (16 MiB / 16384 lines / 4096) are outside; that the logic is parametric in them is an argument by reading',
                     'copy-through of proc_line around matches not yet covered', 'read() never fails (no -1)'],
        stubs=['read: arbitrary piece of the symbolic stream', 'mmap: fresh object of exactly the requested size', 'posix_fadvise: no-op'])
