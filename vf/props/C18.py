# C18 -- stream filters are transparent and independent of input chunking
from .. import core
from ..core import Ob


def make_obs(ctx):
    obs = []
    # (window lines, line length factor, chunk, stream bytes)
    cfgs = [(4, 6, 4, 6), (4, 6, 3, 8), (3, 8, 8, 7), (2, 8, 4, 5)]
    if ctx.tier == 'thorough':
        cfgs += [(4, 6, 4, 10), (4, 6, 2, 9), (3, 4, 4, 11), (6, 4, 5, 10)]
    for (nl, ll, ch, sl) in cfgs:
        d = {'VERIF_MAX_NLINES': nl, 'VERIF_MAX_LLEN': ll, 'VERIF_CHUNK_SIZE': ch, 'SLEN': sl, 'NREADS': sl + 1}
        obs.append(Ob('chunking:win%dx%d:chunk%d:stream%d' % (nl, ll, ch, sl), 'C18_chunk.c', 'h_chunking', d,
                      unwind=sl + 6, mem=True, replay='asan', group='chunking', timeout=900,
                      bounds={'window': '%d lines x %d bytes = %d bytes (scaled through the DATEUTILS_VERIF hook)' % (nl, ll, nl * ll),
                              'chunk': ch, 'stream': '%d symbolic bytes over {LF, CR, a, b}' % sl,
                              'schedule': 'every read() returns an arbitrary count in 1..min(chunk, remaining)'}))
    return obs


def run(tier, seed):
    return core.run_property(
        'C18', tier, seed, make_obs,
        level_note=('bounded model checking of the chunk reader on scaled constants: stream bytes and the sizes of all '
                    'read() results are symbolic, so every way of cutting the stream is covered inside the bound'),
        assumptions=['the real constants (16 MiB / 16384 lines / 4096) are outside; that the logic is parametric in them is an argument by reading',
                     'copy-through of proc_line around matches not yet covered', 'read() never fails (no -1)'],
        stubs=['read: arbitrary piece of the symbolic stream', 'mmap: fresh object of exactly the requested size', 'posix_fadvise: no-op'])
