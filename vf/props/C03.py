# C03 -- adding days or weeks is exact in every calendar
from .. import core
from ..core import Ob
from .C01 import REPS, UNITS, DAYNUM

H = 'C03_add.c'
# per calendar: (|n| bound in days, unwind, |n| bound in weeks, unwind): the carry loops run once
# per month (ymd, ymcw), year (yd) or 52/53-week year (ywd) crossed
LOOPS = {'ymd': (62, 5, 9, 5), 'ymcw': (62, 5, 9, 5), 'yd': (400, 4, 57, 4),
         'ywd': (400, 4, 57, 4), 'daisy': (900000, 2, 130000, 2), 'ldn': (900000, 2, 130000, 2),
         'mdn': (900000, 2, 130000, 2)}


def make_obs(ctx):
    obs = []
    # the cost of a query grows with (days in window) x (values of n): small windows
    wins = core.year_windows(ctx.tier, ctx.seed, step=5,
                             quick=[(1601, 1602), (1900, 1900), (2000, 2000), (2003, 2004), (4094, 4095)])
    if ctx.tier == 'quick':
        wins[-1] = (wins[-1][0], wins[-1][0] + 1)
    for (lo, hi) in wins:
        d = {'YLO': lo, 'YHI': hi}
        for rp, (nd, ud, nw, uw) in LOOPS.items():
            kf = ['daisy_tail'] if rp in DAYNUM and hi >= 4091 else []
            obs.append(Ob('add-d:%s:%d-%d' % (rp, lo, hi), H, 'h_add_d', dict(d, REP=REPS[rp], NMAX=nd),
                          units=UNITS, unwind=ud, group='add-d:%s' % rp, kf=[],
                          bounds={'days': 'every day of %d..%d' % (lo, hi), 'n': '|n| <= %d days' % nd, 'unwind': ud}))
            obs.append(Ob('add-w:%s:%d-%d' % (rp, lo, hi), H, 'h_add_w', dict(d, REP=REPS[rp], NMAX=nw),
                          units=UNITS, unwind=uw, group='add-w:%s' % rp,
                          bounds={'days': 'every day of %d..%d' % (lo, hi), 'n': '|n| <= %d weeks' % nw, 'unwind': uw}))
            if rp in ('ymd', 'ywd', 'yd', 'daisy'):
                obs.append(Ob('add-dur:%s:%d-%d' % (rp, lo, hi), H, 'h_add_dur',
                              dict(d, REP=REPS[rp], NMAX=31), units=UNITS, unwind=max(ud, uw) + 2,
                              group='add-dur:%s' % rp,
                              bounds={'days': 'every day of %d..%d' % (lo, hi), 'n': '|n| <= 31 days, then -n'}))
    return obs


def run(tier, seed):
    return core.run_property(
        'C03', tier, seed, make_obs,
        level_note=('bounded model checking: start day symbolic per year window, signed count symbolic inside '
                    'the carry-loop bound (unwinding assertions prove the bound); day-number calendars: all n'),
        assumptions=['reference calendar model h/ref.h', 'counts beyond the stated |n| for ymd/ymcw/yd/ywd are outside the claim',
                     'bizda handled in C07'],
        stubs=[])
