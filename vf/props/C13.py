# C13 -- results do not depend on what was processed before (no hidden state)
from .. import core
from ..core import Ob

DT_UNITS = ['lib/date-core.c', 'lib/time-core.c', 'lib/strops.c', 'lib/token.c', 'lib/leaps.c', 'lib/dt-locale.c']


def make_obs(ctx):
    obs = []
    ns = range(0, 9) if ctx.tier == 'thorough' else (0, 1, 2, 3, 5)
    for n in ns:
        uw = max(n, 4) + 3
        obs.append(Ob('zone-cache-step:N%d' % n, 'C12_tz.c', 'h_cache_step', {'N': n}, units=['lib/leaps.c'],
                      unwind=uw, group='zone-cache-step',
                      bounds={'table': '%d symbolic transitions' % n,
                              'prestate': 'cold, or the range of ANY earlier instant, or the before-first state',
                              'query': 'any instant from the first transition on'}))
        obs.append(Ob('zone-two-step:N%d' % n, 'C12_tz.c', 'h_two_step', {'N': n}, units=['lib/leaps.c'],
                      unwind=uw, group='zone-two-step',
                      bounds={'table': '%d symbolic transitions' % n, 'history': 'fresh handle, one earlier lookup of ANY instant (also before the first transition), state left by the real code',
                              'query': 'any instant from the first transition on'}))
    if ctx.tier == 'thorough':
      obs.append(Ob('zone-cache-step:big300', 'C12_tz.c', 'h_cache_step', {'N': 300, 'BIGTAB': 1}, units=['lib/leaps.c'],
                  unwind=14, unwindset=['mk_table.0:302', 'ref_k.0:302'], timeout=600, group='zone-cache-step',
                  bounds={'table': 'concrete 300 transitions', 'prestate': 'as above'}))
    sl, tl = (4, 3) if ctx.tier == 'thorough' else (3, 2)
    obs.append(Ob('strops-table-step', 'C13_state.c', 'h_strops_step', {'PART_STROPS': 1, 'SL': sl, 'TL': tl}, unwind=7,
                  unwindset=['h_strops_step.0:258', 'h_strops_step.3:258', 'h_strops_step.10:258'],
                  group='strops-table-step', timeout=600,
                  bounds={'prestate': 'arbitrary table/cycle with table[c] <= cycle (256 symbolic bytes)',
                          'strings': 'source %d bytes, set %d bytes, all symbolic' % (sl, tl), 'ops': 'xstrspn, xstrcspn, xstrpbrk'}))
    obs.append(Ob('base-set', 'C13_state.c', 'h_base_set', {'PART_BASE': 1}, units=DT_UNITS, unwind=4, group='base',
                  remove_bodies=core.prune_cals(['ymd', 'daisy']),
                  bounds={'base': 'any valid date', 'clock': 'arbitrary on every reading'}))
    obs.append(Ob('base-now', 'C13_state.c', 'h_base_now', {'PART_BASE': 1}, units=DT_UNITS, unwind=6, group='base',
                  remove_bodies=core.prune_cals(['ymd', 'daisy']), replay='none',
                  bounds={'clock': 'arbitrary on every reading, 1970..2242'}))
    return obs


def run(tier, seed):
    return core.run_property(
        'C13', tier, seed, make_obs,
        level_note=('one inductive step per state-carrying component from an arbitrary invariant-satisfying '
                    'pre-state: covers histories of any length for the zone cache, the strops table and the base singleton'),
        assumptions=['composition (N-value run == N single runs) follows from the components by the argument in DESIGN 3/C13, not solver-checked',
                     'OS-level state (stdio buffers, file descriptors) outside'],
        stubs=['gettimeofday: arbitrary value on every call (base singleton)'])
