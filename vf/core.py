# core.py -- snapshot, encode (goto-cc), decide (cbmc), replay, evidence
#
# Every check goes through the same pipeline (DESIGN.md section 1.1):
#   snapshot /repo -> make generated sources + replay libs -> rewritten header
#   copy for goto-cc -> one goto binary per obligation -> cbmc -> verdict ->
#   replay of counterexamples against the gcc/clang build -> evidence json
import concurrent.futures
import hashlib
import json
import os
import re
import shutil
import subprocess
import sys
import tempfile
import threading
import time

VERIF = os.path.dirname(os.path.dirname(os.path.abspath(__file__)))
REPO = os.environ.get('VERIF_REPO', '/repo')
HDIR = os.path.join(VERIF, 'h')
GUARD = 'DATEUTILS_VERIF'

CPPFLAGS = ['-DHAVE_CONFIG_H', '-D_POSIX_C_SOURCE=200112L', '-D_XOPEN_SOURCE=600',
            '-D_BSD_SOURCE', '-D_DEFAULT_SOURCE', '-DDECLF=extern', '-DLIBDUT',
            '-DHAVE_VERSION_H', '-D' + GUARD,
            '-DLOCALE_FILE="/usr/local/share/dateutils/locale"',
            '-DTZMAP_DIR="/usr/local/share/dateutils"']

# checks that are on for every obligation: an out-of-bounds table read or a
# division by zero makes any functional result meaningless
# (cbmc 6 defaults: bounds, pointer, div-by-zero, signed-overflow, undefined-shift,
# pointer-primitive, and an assertion for every call of a body-less function;
# --no-standard-checks would also drop the latter, which must stay: a missing
# body silently returns an arbitrary value)
BASE_CHECKS = ['--no-signed-overflow-check', '--no-undefined-shift-check']
FUNC_ONLY = ['--no-pointer-primitive-check']
# additional ones where memory safety / totality is the subject
MEM_CHECKS = ['--pointer-overflow-check']

NCPU = int(os.environ.get('VERIF_JOBS', os.cpu_count() or 4))


class Broken(Exception):
    """the machinery (not the code under test) failed"""


def sh(cmd, cwd=None, timeout=None, env=None, check=False, inp=None):
    p = subprocess.run(cmd, cwd=cwd, timeout=timeout, env=env, input=inp,
                       stdout=subprocess.PIPE, stderr=subprocess.STDOUT,
                       text=True, errors='replace')
    if check and p.returncode != 0:
        raise Broken('command failed (%d): %s\n%s' % (
            p.returncode, ' '.join(cmd) if isinstance(cmd, list) else cmd,
            p.stdout[-4000:]))
    return p


class Ob(object):
    """one proof obligation = one cbmc query over all values in its bounds"""

    def __init__(self, name, harness, func, defs=None, unwind=2, unwindset=None,
                 flags=None, timeout=None, solver='cadical', mem=False, kf=None,
                 replay='gcc', bounds=None, expect_fail=None, group=None,
                 remove_bodies=None, nondet_static=False, cover=None,
                 objbits=None, units=None, kfwhole=None, memgb=3):
        self.name = name
        self.harness = harness
        self.func = func
        self.defs = dict(defs or {})
        self.unwind = unwind
        self.unwindset = list(unwindset or [])
        self.flags = list(flags or [])
        self.timeout = timeout
        self.solver = solver
        self.mem = mem
        self.kf = list(kf or [])
        self.replay = replay
        self.bounds = bounds or {}
        self.group = group or func
        self.remove_bodies = list(remove_bodies or [])
        self.nondet_static = nondet_static
        self.objbits = objbits
        self.kfwhole = kfwhole    # key: the whole obligation is a listed finding
        self.memgb = memgb        # expected peak memory of the query, for the scheduler
        self.units = list(units or [])   # extra real translation units, e.g. 'lib/date-core.c'
        # filled in by the runner
        self.kfmode = None      # None | ('EXCL', key...) | ('ONLY', key)
        self.result = None


class Result(object):
    def __init__(self):
        self.status = None      # 'holds' | 'violated' | 'inconclusive' | 'broken' | 'vacuous'
        self.failed_props = []  # [(property id, description)]
        self.witness = None     # True if the vacuity witness was reachable
        self.unwind_ok = None
        self.solver_s = 0.0
        self.wall_s = 0.0
        self.vars = 0
        self.clauses = 0
        self.inputs = {}        # counterexample: name -> value / name[i] -> value
        self.replay = None      # 'confirmed' | 'not-reproduced' | 'unconfirmable' | None
        self.replay_path = None
        self.replay_out = ''
        self.detail = ''
        self.nprops = 0
        self.functions = []


class Ctx(object):
    def __init__(self, prop, tier, seed):
        self.prop = prop
        self.tier = tier
        self.seed = seed
        self.t0 = time.time()
        self.scratch = tempfile.mkdtemp(prefix='vf.%s.' % prop, dir=os.environ.get('VERIF_TMP', '/tmp'))
        self.snap = os.path.join(self.scratch, 'snap')
        self.rw = os.path.join(self.scratch, 'rw')
        self.gb = os.path.join(self.scratch, 'gb')
        self.gen = os.path.join(self.scratch, 'gen')
        os.makedirs(self.gb)
        self.rewrites = []
        self.log_lines = []
        self.solver_cap = 120 if tier == 'quick' else 900
        self.known = load_known(prop)
        self.lock = threading.Lock()
        self.keylocks = {}

    def log(self, msg):
        line = '[%s %6.1fs] %s' % (self.prop, time.time() - self.t0, msg)
        print(line, flush=True)

    def cleanup(self):
        shutil.rmtree(self.scratch, ignore_errors=True)

    # ------------------------------------------------------------------
    def snapshot(self, build=True):
        """private copy of /repo's working tree; generated sources and the
        replay libraries are (re)made there with the project's own rules"""
        t = time.time()
        sh(['rsync', '-a', '--exclude', '.git', '--exclude', '/test',
            '--exclude', '/info', REPO + '/', self.snap + '/'], check=True)
        if not os.path.exists(os.path.join(self.snap, 'Makefile')):
            self.log('no Makefile in tree, running configure')
            sh(['./configure', '--quiet'], cwd=self.snap, check=True, timeout=600)
        else:
            # the generated Makefiles carry absolute paths of the build tree
            abs_repo = os.path.realpath(REPO)
            for root, _dirs, files in os.walk(self.snap):
                for f in files:
                    if f in ('Makefile', 'config.status', 'libtool'):
                        p = os.path.join(root, f)
                        with open(p, 'r', errors='replace') as fh:
                            s = fh.read()
                        if abs_repo in s:
                            st = os.stat(p)
                            s = re.sub(r'(?<![\w/.-])%s(?![\w.-])' % re.escape(abs_repo),
                                       self.snap, s)
                            with open(p, 'w') as fh:
                                fh.write(s)
                            os.utime(p, (st.st_atime, st.st_mtime))
        if build:
            for d in ('build-aux', 'lib', 'src'):
                p = sh(['make', '-C', d, '-j%d' % NCPU, '-s'], cwd=self.snap, timeout=900)
                if p.returncode != 0:
                    raise Broken('make -C %s failed in snapshot:\n%s' % (d, p.stdout[-3000:]))
        self.make_rw()
        self.log('snapshot + build + header rewrite: %.1fs' % (time.time() - t))

    # ------------------------------------------------------------------
    def make_rw(self):
        """DESIGN 2.3 measure A: copy of the sources in which enum-typed
        bit-fields are declared `unsigned int' (CBMC does not constant-fold
        enum-typed bit-fields); validated by a gcc layout probe"""
        os.makedirs(self.rw)
        for d in ('lib', 'src', 'data'):
            os.makedirs(os.path.join(self.rw, d))
            sd = os.path.join(self.snap, d)
            for f in os.listdir(sd):
                if re.search(r'\.(c|h|def|tab|yucc|gperf|list)$', f):
                    shutil.copy2(os.path.join(sd, f), os.path.join(self.rw, d, f))
        # enum typedef names
        names = set()
        texts = {}
        for d in ('lib', 'src'):
            for f in os.listdir(os.path.join(self.rw, d)):
                if not re.search(r'\.[ch]$', f):
                    continue
                p = os.path.join(self.rw, d, f)
                with open(p, 'r', errors='replace') as fh:
                    s = fh.read()
                texts[p] = s
                for m in re.finditer(r'typedef\s+enum\s*(?:\w+\s*)?\{[^}]*\}\s*(\w+)\s*;', s):
                    names.add(m.group(1))
        for p, s in texts.items():
            out = s
            if names:
                pat = re.compile(r'(^[ \t]*)(%s)([ \t]+\w+[ \t]*:[ \t]*\w+[ \t]*;)' %
                                 '|'.join(sorted(map(re.escape, names))), re.M)

                def rep(m):
                    self.rewrites.append('%s: %s%s -> unsigned int' % (
                        os.path.relpath(p, self.rw), m.group(2), m.group(3).strip()))
                    return m.group(1) + 'unsigned int' + m.group(3)
                out = pat.sub(rep, out)
            # anonymous enum bit-fields inside structs: keep the enumerators
            pat2 = re.compile(r'(^[ \t]*)(enum\s*\{[^}]*\})([ \t]*\w+[ \t]*:[ \t]*\w+[ \t]*;)', re.M)

            def rep2(m):
                self.rewrites.append('%s: anonymous enum%s -> unsigned int' % (
                    os.path.relpath(p, self.rw), m.group(3).strip()))
                return m.group(1) + m.group(2) + ';\n' + m.group(1) + 'unsigned int' + m.group(3)
            out = pat2.sub(rep2, out)
            if out != s:
                with open(p, 'w') as fh:
                    fh.write(out)
        self.layout_probe()

    def layout_probe(self):
        probe = os.path.join(HDIR, 'layout_probe.c')
        outs = []
        for root in (self.snap, self.rw):
            exe = os.path.join(self.scratch, 'probe.%s' % os.path.basename(root))
            cmd = ['gcc', '-std=gnu11', '-w', '-O0'] + CPPFLAGS + [
                '-I' + os.path.join(root, 'src'), '-I' + os.path.join(root, 'lib'),
                '-o', exe, probe]
            sh(cmd, check=True, timeout=120)
            outs.append(sh([exe], check=True, timeout=30).stdout)
        if outs[0] != outs[1]:
            raise Broken('layout probe: rewritten headers change struct layout')
        self.layout_lines = outs[0].count('\n')

    # ------------------------------------------------------------------
    def incs(self, root):
        return ['-I' + os.path.join(root, 'src'), '-I' + os.path.join(root, 'lib'),
                '-I' + HDIR, '-I' + self.gen]

    def compile_gb(self, ob):
        defs = dict(ob.defs)
        if ob.kfmode:
            for k in ob.kfmode[1:]:
                defs['KF_%s_%s' % (ob.kfmode[0], k)] = 1
        key = hashlib.sha1(json.dumps([ob.harness, sorted(defs.items()),
                                       ob.remove_bodies, ob.units]).encode()).hexdigest()[:16]
        out = os.path.join(self.gb, key + '.gb')
        with self.lock:
            klock = self.keylocks.setdefault(key, threading.Lock())
        with klock:
            return self._compile_gb(ob, defs, out)

    def _compile_gb(self, ob, defs, out):
        if os.path.exists(out):
            return out
        tmp = out + '.tmp'
        cmd = ['goto-cc', '-std=gnu11', '-DVF_CBMC'] + CPPFLAGS + self.incs(self.rw) + \
              ['-D%s=%s' % kv for kv in sorted(defs.items())] + \
              ['-o', tmp, os.path.join(HDIR, ob.harness)] + \
              [self.compile_unit(u) for u in ob.units]
        p = sh(cmd, timeout=300)
        if p.returncode != 0 or not os.path.exists(tmp):
            raise Broken('goto-cc failed for %s:\n%s' % (ob.harness, p.stdout[-3000:]))
        if ob.remove_bodies:
            # DESIGN 2.3 measure B: kernels the dispatch must not reach get the
            # body `assert(false); assume(false)': reaching one is a failure,
            # not reaching them costs nothing.  remove_bodies = regexes
            lst = sh(['goto-instrument', '--list-goto-functions', tmp], timeout=300).stdout
            have = re.findall(r'^(\w+) /\* \1 \*/$', lst, re.M)
            pat = re.compile('^(?:' + '|'.join(ob.remove_bodies) + ')$')
            victims = [f for f in have if pat.match(f)]
            if victims:
                cmd = ['goto-instrument']
                for f in victims:
                    cmd += ['--remove-function-body', f]
                cmd += [tmp, tmp + '.1']
                sh(cmd, check=True, timeout=300)
                cmd = ['goto-instrument', '--generate-function-body',
                       '^(' + '|'.join(victims) + ')$',
                       '--generate-function-body-options', 'assert-false-assume-false',
                       tmp + '.1', tmp]
                sh(cmd, check=True, timeout=300)
                os.unlink(tmp + '.1')
        os.rename(tmp, out)
        return out

    def compile_unit(self, unit):
        """a real translation unit, compiled as is (rewritten headers)"""
        out = os.path.join(self.gb, 'unit-' + unit.replace('/', '_') + '.gb')
        with self.lock:
            if not os.path.exists(out):
                cmd = ['goto-cc', '-std=gnu11', '-DVF_CBMC'] + CPPFLAGS + self.incs(self.rw) + \
                      ['-c', os.path.join(self.rw, unit), '-o', out]
                p = sh(cmd, timeout=300)
                if p.returncode != 0 or not os.path.exists(out):
                    raise Broken('goto-cc failed for unit %s:\n%s' % (unit, p.stdout[-3000:]))
        return out

    # ------------------------------------------------------------------
    def run_ob(self, ob):
        r = Result()
        t0 = time.time()
        try:
            gb = self.compile_gb(ob)
        except Broken as e:
            r.status = 'broken'
            r.detail = str(e)
            return r
        cap = ob.timeout or self.solver_cap
        envpath = None
        cmd = ['cbmc', gb, '--function', ob.func, '--unwind', str(ob.unwind),
               '--unwinding-assertions', '--drop-unused-functions',
               '--no-malloc-may-fail', '--json-ui', '--trace',
               '--verbosity', '8']
        cmd += BASE_CHECKS
        if ob.mem:
            cmd += MEM_CHECKS
        else:
            cmd += FUNC_ONLY
        if ob.unwindset:
            cmd += ['--unwindset', ','.join(ob.unwindset)]
        if ob.nondet_static:
            cmd += ['--nondet-static']
        if ob.objbits:
            cmd += ['--object-bits', str(ob.objbits)]
        if ob.solver == 'cadical':
            cmd += ['--sat-solver', 'cadical']
        elif ob.solver == 'kissat':
            cmd += ['--external-sat-solver', 'kissat']
        elif ob.solver == 'z3':
            cmd += ['--z3']
        elif ob.solver == 'cvc5int':
            # integer encoding that keeps mod-2^k semantics: decides
            # multiply/divide-by-constant kernels that stall bit-blasting
            shim = os.path.join(self.scratch, 'shim')
            with self.lock:
                if not os.path.exists(shim):
                    os.makedirs(shim)
                    with open(os.path.join(shim, 'cvc5'), 'w') as fh:
                        fh.write('#!/bin/sh\nexec /usr/bin/cvc5 --solve-bv-as-int=sum "$@"\n')
                    os.chmod(os.path.join(shim, 'cvc5'), 0o755)
            cmd += ['--cvc5']
            envpath = shim + ':' + os.environ.get('PATH', '')
        elif ob.solver == 'minisat':
            pass
        cmd += ob.flags
        memlimit = int(os.environ.get('VERIF_MEM_KB', 12 * 1024 * 1024))
        env = dict(os.environ)
        if envpath:
            env['PATH'] = envpath
        try:
            p = subprocess.run(['bash', '-c', 'ulimit -v %d; exec "$@"' % memlimit, 'x'] + cmd,
                               stdout=subprocess.PIPE, stderr=subprocess.PIPE,
                               timeout=cap, text=True, errors='replace', env=env)
        except subprocess.TimeoutExpired:
            r.status = 'inconclusive'
            r.detail = 'solver cap %ds exceeded' % cap
            r.wall_s = time.time() - t0
            return r
        r.wall_s = time.time() - t0
        try:
            js = json.loads(p.stdout)
        except ValueError:
            r.status = 'inconclusive' if p.returncode in (-9, 137, 134, 6) or 'bad_alloc' in p.stderr or 'Out of memory' in p.stdout[-2000:] else 'broken'
            r.detail = 'cbmc output unparsable (rc=%s): %s %s' % (p.returncode, p.stdout[-1500:], p.stderr[-500:])
            return r
        self.parse_cbmc(ob, js, r)
        return r

    def parse_cbmc(self, ob, js, r):
        results = None
        errors = []
        for e in js:
            if not isinstance(e, dict):
                continue
            if 'result' in e:
                results = e['result']
            mt = e.get('messageType')
            txt = e.get('messageText', '')
            if mt == 'ERROR':
                errors.append(txt)
            elif mt == 'STATUS-MESSAGE':
                m = re.search(r'(\d+) variables, (\d+) clauses', txt)
                if m:
                    r.vars = max(r.vars, int(m.group(1)))
                    r.clauses = max(r.clauses, int(m.group(2)))
                m = re.search(r'Runtime Solver: ([\d.e+-]+)s', txt)
                if m:
                    r.solver_s += float(m.group(1))
        if results is None:
            r.status = 'broken'
            r.detail = 'no result block; errors: %s' % '; '.join(errors)[-2000:]
            return
        r.nprops = len(results)
        r.witness = None
        r.unwind_ok = True
        bad = []
        unknown = []
        for pr in results:
            pid = pr.get('property', '')
            desc = pr.get('description', '')
            st = pr.get('status')
            if desc == 'VF_WITNESS':
                if st == 'FAILURE':
                    r.witness = True
                elif r.witness is None:
                    r.witness = False
                continue
            if st == 'SUCCESS':
                continue
            if st != 'FAILURE':
                # ERROR / UNKNOWN: no verdict for this property (solver gave up, or cbmc stopped
                # after other properties failed); decided below
                unknown.append((pid, st))
                continue
            if '.no-body.' in pid:
                r.status = 'broken'
                r.detail = 'harness incomplete: %s' % desc
                return
            if '.unwind.' in pid or 'recursion' in pid and 'unwinding' in desc:
                r.unwind_ok = False
                bad.append((pid, desc, pr))
                continue
            bad.append((pid, desc, pr))
        if unknown and not bad:
            # never a verdict: memory limit, abort
            r.status = 'inconclusive'
            r.detail = 'cbmc reports status %s for %s and %d more (solver out of memory or aborted)' % (
                unknown[0][1], unknown[0][0], len(unknown) - 1)
            return
        real = [(a, b, pr) for a, b, pr in bad if '.unwind.' not in a and 'recursion' not in a]
        if not r.unwind_ok and not real:
            # either the bound is too small or the loop does not terminate:
            # the replay decides (a run that hangs confirms non-termination)
            r.status = 'unwind-fail'
            r.failed_props = [(a, b) for a, b, _ in bad if 'unwind' in a]
            r.detail = 'unwinding assertion failed at bound %d: %s' % (
                ob.unwind, ', '.join(a for a, _b, _ in bad if 'unwind' in a)[:500])
            for a, _b, pr in bad:
                if 'unwind' in a and 'trace' in pr:
                    r.inputs = self.trace_inputs(ob, pr['trace'])
                    break
            return
        if real:
            bad = real
        if bad:
            r.status = 'violated'
            r.failed_props = [(a, b) for a, b, _ in bad]
            # inputs from the first failing property's trace
            for _a, _b, pr in bad:
                if 'trace' in pr:
                    r.inputs = self.trace_inputs(ob, pr['trace'])
                    break
            return
        if r.witness is False or r.witness is None:
            r.status = 'vacuous'
            r.detail = 'vacuity witness not reachable (or missing)'
            return
        r.status = 'holds'

    def trace_inputs(self, ob, trace):
        """symbolic inputs of the harness: by convention every ND() variable is
        named v<something> and lives in the harness entry function; ND_ARR
        elements are assigned through <name>_i / <name>_e"""
        vals = {}
        idx = {}
        for s in trace:
            if s.get('stepType') != 'assignment':
                continue
            if s.get('sourceLocation', {}).get('function') != ob.func:
                continue
            lhs = s.get('lhs', '')
            v = s.get('value', {})
            if 'data' not in v:
                continue
            m = re.fullmatch(r'(v\w*)\[(\d+)l?\]', lhs)
            if m:
                vals['%s[%s]' % (m.group(1), m.group(2))] = parse_c_int(v['data'], v)
                continue
            if not re.fullmatch(r'v\w*', lhs) or lhs.endswith('_i') or lhs.endswith('_e'):
                continue
            vals[lhs] = parse_c_int(v['data'], v)
        return vals

    # ------------------------------------------------------------------
    def replay(self, ob, r):
        """re-run the solver's input against the real code built by gcc (or
        clang+ASan for memory safety, with the obligation's units compiled from
        the snapshot's sources so that they are instrumented too) through the
        same harness source"""
        rdir = os.path.join('/tmp/verif-evidence-scratch' if (os.environ.get('VERIF_NO_EVIDENCE') or os.environ.get('VERIF_ONLY')) else
                            os.path.join(VERIF, 'evidence'), 'replay', self.prop)
        os.makedirs(rdir, exist_ok=True)
        tag = re.sub(r'[^\w.-]', '_', ob.name)[:80]
        path = os.path.join(rdir, tag + '.replay')
        defs = dict(ob.defs)
        if ob.kfmode:
            for k in ob.kfmode[1:]:
                defs['KF_%s_%s' % (ob.kfmode[0], k)] = 1
        with open(path, 'w') as fh:
            fh.write('# property=%s obligation=%s\n' % (self.prop, ob.name))
            fh.write('# harness=%s func=%s mode=%s\n' % (ob.harness, ob.func, ob.replay))
            fh.write('# defs=%s\n' % json.dumps(defs, sort_keys=True))
            fh.write('# units=%s\n' % json.dumps(ob.units))
            fh.write('# failed=%s\n' % json.dumps(r.failed_props[:5]))
            for k in sorted(r.inputs):
                fh.write('%s=%d\n' % (k, r.inputs[k]))
        r.replay_path = path
        out, rc = self.run_replay(ob.harness, ob.func, defs, ob.replay, path, ob.units)
        r.replay_out = out[-3000:]
        with open(path, 'a') as fh:
            for ln in out.splitlines()[-40:]:
                fh.write('# out: %s\n' % ln)
        if 'REPLAY-FAIL' in out or 'ERROR: AddressSanitizer' in out or \
           'runtime error:' in out or rc in (-11, -6, 139, 134):
            r.replay = 'confirmed'
        elif rc == 124:
            r.replay = 'confirmed' if ob.mem else 'not-reproduced'
        else:
            r.replay = 'not-reproduced'
        return r.replay

    def run_replay(self, harness, func, defs, mode, path, units=()):
        with self.lock:
            self.rpn = getattr(self, 'rpn', 0) + 1
            exe = os.path.join(self.scratch, 'rp.%d' % self.rpn)
        if mode == 'asan':
            cc = ['clang', '-fsanitize=address,undefined', '-fno-sanitize-recover=undefined',
                  '-fno-omit-frame-pointer', '-g', '-O1']
        else:
            cc = ['gcc', '-O2', '-g']
        cmd = cc + ['-std=gnu11', '-w'] + CPPFLAGS + self.incs(self.snap) + \
            ['-D%s=%s' % kv for kv in sorted(defs.items())] + \
            ['-DVF_ENTRY=' + func, '-o', exe,
             os.path.join(HDIR, harness), os.path.join(HDIR, 'vf_replay.c')] + \
            ([os.path.join(self.snap, u) for u in (units or ())] if mode == 'asan' else []) + \
            [os.path.join(self.snap, 'src', 'libdutio.a'),
             os.path.join(self.snap, 'lib', 'libdut.a'), '-lm']
        p = sh(cmd, timeout=300)
        if p.returncode != 0:
            return 'REPLAY-BUILD-FAILED\n' + p.stdout[-3000:], 2
        env = dict(os.environ)
        env['ASAN_OPTIONS'] = 'detect_leaks=0:abort_on_error=0'
        try:
            q = subprocess.run([exe, path], stdout=subprocess.PIPE, stderr=subprocess.STDOUT,
                               timeout=20, text=True, errors='replace', env=env)
            return q.stdout, q.returncode
        except subprocess.TimeoutExpired:
            return 'REPLAY-TIMEOUT', 124


def parse_c_int(data, v):
    b = v.get('binary')
    typ = v.get('type', '')
    if b and re.fullmatch(r'[01]+', b):
        n = int(b, 2)
        signed = not (typ.startswith('unsigned') or typ in ('_Bool', 'char') and False)
        if 'unsigned' in typ or typ == '_Bool':
            signed = False
        if signed and b[0] == '1':
            n -= 1 << len(b)
        return n
    m = re.match(r'-?\d+', data)
    if m:
        return int(m.group(0))
    if data in ('TRUE', 'true'):
        return 1
    if data in ('FALSE', 'false'):
        return 0
    return 0


# ----------------------------------------------------------------------
def load_known(prop):
    """known-findings.txt: lines `known: property=<id> key=<key> -- text' and
    `fixed: property=<id> <commit> -- text' (the latter suppress nothing)"""
    known = {}
    p = os.path.join(VERIF, 'known-findings.txt')
    if not os.path.exists(p):
        return known
    with open(p) as fh:
        for ln in fh:
            m = re.match(r'known:\s+property=(\w+)\s+key=(\w+)\s+(.*)', ln.strip())
            if m and m.group(1) == prop:
                known[m.group(2)] = m.group(3)
    return known


def expand_known(ctx, obs):
    """an obligation sensitive to a listed finding is split in two:
    EXCL (the finding's inputs assumed away: must hold, anything else is a
    VIOLATION) and ONLY (restricted to the finding: expected to fail)"""
    out = []
    for ob in obs:
        keys = [k for k in ob.kf if k in ctx.known]
        if not keys:
            out.append(ob)
            continue
        a = clone(ob)
        a.name = ob.name + '~excl'
        a.kfmode = tuple(['EXCL'] + keys)
        out.append(a)
        for k in keys:
            b = clone(ob)
            b.name = ob.name + '~only-' + k
            b.kfmode = ('ONLY', k)
            out.append(b)
    return out


def clone(ob):
    c = Ob(ob.name, ob.harness, ob.func)
    c.__dict__.update({k: (v.copy() if isinstance(v, (dict, list)) else v)
                       for k, v in ob.__dict__.items()})
    return c


# ----------------------------------------------------------------------
def run_property(prop, tier, seed, make_obs, level_note, assumptions, stubs=None,
                 rule=None, pre=None, extra_cov=None, need_build=True):
    """generic driver: returns the process exit code"""
    ctx = Ctx(prop, tier, seed)
    rc = 2
    try:
        ctx.snapshot(build=need_build)
        pre_info = pre(ctx) if pre else {}
        obs = expand_known(ctx, make_obs(ctx))
        only = os.environ.get('VERIF_ONLY')
        if only:
            obs = [o for o in obs if re.search(only, o.name)]
        names = [o.name for o in obs]
        if len(set(names)) != len(names):
            raise Broken('duplicate obligation names')
        ctx.log('%d obligations, tier=%s seed=%d jobs=%d' % (len(obs), tier, seed, NCPU))
        # wall-clock budget: obligations not started inside it are recorded as skipped (never as
        # discharged).  Default: none for quick, 45 min for thorough; VERIF_BUDGET_S=0 runs everything.
        budget = float(os.environ.get('VERIF_BUDGET_S', 0 if tier == 'quick' else 2700))
        ctx.budget_s = budget
        if budget:
            obs = budget_order(obs, seed)

        # queries that are known to need much memory declare it (Ob.memgb); no more than RAM_GB worth
        # of declared memory runs at a time, so that the kernel's OOM killer never decides a query
        ram = float(os.environ.get('VERIF_RAM_GB', 48))
        cond = threading.Condition()
        used = [0.0]

        def run_within_budget(ob):
            if budget and time.time() - ctx.t0 > budget:
                r = Result()
                r.status = 'skipped'
                r.detail = 'not started inside the budget of %ds' % budget
                return r
            need = min(float(ob.memgb), ram)
            with cond:
                while used[0] + need > ram and used[0] > 0:
                    cond.wait()
                used[0] += need
            try:
                if budget and time.time() - ctx.t0 > budget:
                    # the wait for memory ran past the budget
                    r = Result()
                    r.status = 'skipped'
                    r.detail = 'not started inside the budget of %ds' % budget
                    return r
                return ctx.run_ob(ob)
            finally:
                with cond:
                    used[0] -= need
                    cond.notify_all()
        done = 0
        with concurrent.futures.ThreadPoolExecutor(max_workers=NCPU) as ex:
            futs = {ex.submit(run_within_budget, ob): ob for ob in obs}
            for f in concurrent.futures.as_completed(futs):
                ob = futs[f]
                try:
                    ob.result = f.result()
                except Exception as e:  # noqa
                    ob.result = Result()
                    ob.result.status = 'broken'
                    ob.result.detail = 'runner exception: %r' % (e,)
                done += 1
                r = ob.result
                if r.status not in ('holds', 'skipped') or done % 25 == 0 or done == len(obs):
                    ctx.log('%4d/%d %-12s %s (%.1fs) %s' % (
                        done, len(obs), r.status, ob.name, r.wall_s,
                        (r.detail or '')[:300].replace('\n', ' ')))
        rc = conclude(ctx, obs, level_note, assumptions, stubs or [], rule, pre_info, extra_cov)
    except Broken as e:
        ctx.log('BROKEN: %s' % e)
        write_evidence(ctx, [], level_note, assumptions, stubs or [], rule, {}, None,
                       broken=str(e))
        rc = 2
    finally:
        ctx.cleanup()
    return rc


def conclude(ctx, obs, level_note, assumptions, stubs, rule, pre_info, extra_cov):
    violations = []
    known_lines = []
    problems = []
    replayed = 0
    todo = [ob for ob in obs if ob.result.status in ('violated', 'unwind-fail')]
    with concurrent.futures.ThreadPoolExecutor(max_workers=NCPU) as ex:
        list(ex.map(lambda ob: ctx.replay(ob, ob.result), todo))
    for ob in obs:
        r = ob.result
        only = ob.kfmode and ob.kfmode[0] == 'ONLY'
        whole = ob.kfwhole if ob.kfwhole in ctx.known else None
        if r.status == 'unwind-fail':
            replayed += 1
            if 'AddressSanitizer' in (r.replay_out or '') or 'runtime error:' in (r.replay_out or ''):
                r.status = 'violated'
                r.replay = 'confirmed'
                r.failed_props = [(a, 'memory error while the loop ran on: ' + b) for a, b in r.failed_props]
            elif 'REPLAY-TIMEOUT' in (r.replay_out or ''):
                # the real code does not terminate on the solver's input
                r.status = 'violated'
                r.replay = 'confirmed'
                r.failed_props = [(a, 'non-termination: ' + b) for a, b in r.failed_props]
            else:
                r.status = 'inconclusive'
        if r.status == 'violated':
            rp = r.replay
            replayed += 0 if r.failed_props and r.failed_props[0][1].startswith('non-termination') else 1
            if whole:
                if rp == 'confirmed':
                    known_lines.append('KNOWN-FINDING: property=%s %s [key=%s]' % (
                        ctx.prop, ctx.known[whole], whole))
                else:
                    problems.append('%s: listed finding %s does not reproduce in replay (%s)' % (ob.name, whole, rp))
            elif only:
                if rp == 'confirmed' or ob.replay == 'none':
                    known_lines.append('KNOWN-FINDING: property=%s %s [key=%s]' % (
                        ctx.prop, ctx.known[ob.kfmode[1]], ob.kfmode[1]))
                else:
                    problems.append('%s: known finding no longer reproduces in replay (%s): encoding mismatch' % (ob.name, rp))
            elif rp == 'confirmed':
                violations.append(ob)
            elif rp == 'unconfirmable':
                problems.append('%s: counterexample is UB no run-time tool confirms; listed, not raised' % ob.name)
            else:
                problems.append('ENCODING-MISMATCH %s: counterexample does not reproduce on the real build: %s | %s' % (
                    ob.name, r.failed_props[:2], r.replay_out[-300:].replace('\n', ' ')))
        elif r.status == 'skipped':
            # outside the wall-clock budget: stated in the evidence, neither success nor failure
            pass
        elif r.status == 'holds' or (ob.kfmode and r.status == 'vacuous'):
            # ONLY variants: the listed finding is gone (fixed) or lies
            # outside this obligation's window; nothing to print
            pass
        else:
            problems.append('%s: %s %s' % (ob.name, r.status, (r.detail or '')[:600]))
    for ln in sorted(set(known_lines)):
        print(ln)
    if os.environ.get('VERIF_SUGGEST_KF'):
        for ob in violations:
            print('SUGGEST known: property=%s key=%s %s fails, e.g. %s' % (
                ctx.prop, ob.kfwhole or '?', ob.group,
                ' '.join('%s=%s' % kv for kv in sorted(ob.result.inputs.items())[:8])))
    extra_v = getattr(ctx, 'callgraph_violation', None)
    if extra_v:
        print('VIOLATION property=%s replay=%s' % (ctx.prop, extra_v))
    for ob in violations:
        print('VIOLATION property=%s replay=%s' % (ctx.prop, ob.result.replay_path))
        ctx.log('  obligation %s failed: %s inputs=%s' % (
            ob.name, ob.result.failed_props[:3], dict(list(ob.result.inputs.items())[:12])))
    for p in problems[:12]:
        ctx.log('PROBLEM ' + p[:1500])
    if len(problems) > 12:
        ctx.log('... and %d more problems (see evidence json)' % (len(problems) - 12))
    write_evidence(ctx, obs, level_note, assumptions, stubs, rule, pre_info, extra_cov,
                   violations=len(violations), problems=problems, replayed=replayed,
                   known_lines=known_lines)
    gt = {}
    for ob in obs:
        g = gt.setdefault(ob.group, [0, 0.0, 0.0])
        g[0] += 1
        g[1] += ob.result.wall_s
        g[2] = max(g[2], ob.result.wall_s)
    if os.environ.get('VERIF_TIMES'):
        for g, (n, tot, mx) in sorted(gt.items(), key=lambda kv: -kv[1][1])[:40]:
            ctx.log('time %-40s n=%-4d total=%7.1fs max=%6.1fs' % (g, n, tot, mx))
    if violations or extra_v:
        return 1
    if problems:
        return 2
    nskip = len([o for o in obs if o.result.status == 'skipped'])
    if nskip:
        ctx.log('%d obligations discharged, %d not started inside the budget of %ds (VERIF_BUDGET_S=0 runs all)' % (
            len(obs) - nskip, nskip, getattr(ctx, 'budget_s', 0)))
    else:
        ctx.log('all %d obligations discharged' % len(obs))
    return 0


def write_evidence(ctx, obs, level_note, assumptions, stubs, rule, pre_info, extra_cov,
                   violations=0, problems=None, replayed=0, broken=None, known_lines=None):
    discharged = [o for o in obs if o.result and o.result.status == 'holds'
                  and not (o.kfmode and o.kfmode[0] == 'ONLY')]
    nontriv = [o for o in discharged if o.result.witness and o.result.vars > 0]
    funcs = set()
    samples = []
    groups = {}
    for o in obs:
        groups.setdefault(o.group, []).append(o)
    for g, lst in sorted(groups.items()):
        o = lst[0]
        r = o.result
        samples.append({
            'obligation': o.name, 'harness': o.harness, 'entry': o.func,
            'defines': o.defs, 'unwind': o.unwind, 'bounds': o.bounds,
            'status': r.status if r else None,
            'witness_reachable': r.witness if r else None,
            'sat_variables': r.vars if r else None, 'sat_clauses': r.clauses if r else None,
            'solver_s': round(r.solver_s, 3) if r else None,
            'wall_s': round(r.wall_s, 2) if r else None,
            'instances_in_group': len(lst),
        })
    cov = {
        'evaluations': max(len(obs), 1),
        'distinct_nontrivial': len(set(o.name for o in nontriv)),
        'rule': rule or ('one evaluation = one cbmc query deciding an assertion for every value of '
                         'its symbolic inputs inside the stated bounds; counted non-trivial when the '
                         'formula had SAT variables and the vacuity witness (assert(0) at the end of '
                         'the harness) was reachable'),
        'samples': samples[:60] or [{'note': 'no obligation ran'}],
        'obligations': len([o for o in obs if not (o.kfmode and o.kfmode[0] == 'ONLY')]),
        'discharged': len(discharged),
        'known_finding_probes': len([o for o in obs if o.kfmode and o.kfmode[0] == 'ONLY']),
        'traces_validated_against_impl': replayed,
        'solver_s': round(sum(o.result.solver_s for o in obs if o.result), 1),
        'sat_variables_max': max([o.result.vars for o in obs if o.result] or [0]),
        'backend': sorted(set(o.solver for o in obs)),
        'engine': 'cbmc 6.11.0 (goto-cc of the real translation units, textual #include)',
        'header_rewrites': sorted(set(ctx.rewrites)),
        'stubs': stubs,
        'groups': {g: len(l) for g, l in groups.items()},
        'bounds_note': level_note,
        'problems': problems or [],
        'known_findings_printed': sorted(set(known_lines or [])),
        'exhaustive': False,
        'budget_s': getattr(ctx, 'budget_s', 0),
        'skipped_for_budget': len([o for o in obs if o.result and o.result.status == 'skipped']),
        'skipped_groups': {g: len([o for o in l if o.result and o.result.status == 'skipped'])
                           for g, l in groups.items() if any(o.result and o.result.status == 'skipped' for o in l)},
    }
    if broken:
        cov['broken'] = broken
    cov.update(pre_info or {})
    if extra_cov:
        cov.update(extra_cov(ctx, obs))
    ev = {
        'property_id': ctx.prop,
        'tier': ctx.tier,
        'seed': ctx.seed,
        'level': 'model_checking',
        'coverage': cov,
        'assumptions': assumptions,
        'wall_s': round(time.time() - ctx.t0, 1),
        'violations': violations,
    }
    evdir = os.path.join(VERIF, 'evidence')
    if os.environ.get('VERIF_NO_EVIDENCE') or os.environ.get('VERIF_ONLY'):
        # partial / experimental runs never overwrite the evidence of record
        evdir = os.path.join('/tmp', 'verif-evidence-scratch')
    os.makedirs(evdir, exist_ok=True)
    p = os.path.join(evdir, ctx.prop + '.json')
    with open(p + '.tmp', 'w') as fh:
        json.dump(ev, fh, indent=1, sort_keys=True)
    os.rename(p + '.tmp', p)


def budget_order(obs, seed):
    """order for budgeted runs: known-finding probes first (their lines must be printed), then round-robin
    over the groups, each group in an order shuffled deterministically by the seed, so that whatever part
    fits the budget is spread over all groups and over the whole year range"""
    import random
    first, rest, seen = [], [], set()
    for o in obs:
        # probes of listed findings go first, so that their KNOWN-FINDING lines are printed: every
        # region probe (a finding may show in one window only), one whole-obligation probe per key
        if o.kfmode and o.kfmode[0] == 'ONLY':
            first.append(o)
        elif o.kfwhole and o.kfwhole not in seen:
            seen.add(o.kfwhole)
            first.append(o)
        else:
            rest.append(o)
    groups = {}
    for o in rest:
        groups.setdefault(o.group, []).append(o)
    for g in sorted(groups):
        random.Random('%s/%d' % (g, seed)).shuffle(groups[g])
    out = []
    lists = [groups[g] for g in sorted(groups)]
    i = 0
    while any(lists):
        for l in lists:
            if i < len(l):
                out.append(l[i])
        i += 1
        lists = [l for l in lists if i < len(l)] if not any(i < len(l) for l in lists) else lists
        if not any(i < len(l) for l in lists):
            break
    return first + out


# ----------------------------------------------------------------------
# windows over the day / year domain (DESIGN 2.2)
def jan0(y):
    by = y - 1601
    return 365 * by + by // 4 - by // 100 + by // 400


def year_windows_full(step):
    """partition of 1601..4095 into windows of STEP years"""
    out = []
    y = 1601
    while y <= 4095:
        out.append((y, min(y + step - 1, 4095)))
        y += step
    assert out[0][0] == 1601 and out[-1][1] == 4095
    for a, b in zip(out, out[1:]):
        assert a[1] + 1 == b[0]
    return out


QUICK_YEARS = [(1601, 1604), (1696, 1704), (1796, 1804), (1896, 1904), (1996, 2004),
               (2096, 2104), (2396, 2404), (4088, 4095)]


def year_windows(tier, seed, step=40, quick=None):
    if tier == 'thorough':
        return year_windows_full(step)
    w = list(quick or QUICK_YEARS)
    # one seed-rotated extra window so that repeated quick runs wander
    import random
    rnd = random.Random(seed)
    y = rnd.randrange(1601, 4095 - 8)
    w.append((y, y + 8))
    return w


def day_window(yw):
    """day numbers of the years yw=(ylo,yhi): jan 1 of ylo .. dec 31 of yhi"""
    return (jan0(yw[0]) + 1, jan0(yw[1] + 1))


# ----------------------------------------------------------------------
def ref_selftest(ctx):
    """validate h/ref.h against Python's datetime for every day 1601..4095"""
    import datetime
    t = time.time()
    exe = os.path.join(ctx.scratch, 'ref_selftest')
    sh(['gcc', '-O2', '-I' + HDIR, '-o', exe, os.path.join(HDIR, 'ref_selftest.c')], check=True)
    out = sh([exe], check=True, timeout=120).stdout
    base = datetime.date(1601, 1, 1).toordinal() - 1
    n = 0
    for ln in out.splitlines():
        f = ln.split()
        if f[0] == 'BAD':
            raise Broken('reference model self-test: ' + ln)
        dn, y, m, d, wd, doy, iy, iw, wu, wm, hang, nwk, rel = map(int, f)
        dt = datetime.date.fromordinal(base + dn)
        iso = dt.isocalendar()
        # first Monday-week: hang and weeks-in-year from isocalendar of Jan 4 / Dec 28
        mon1 = datetime.date(iy, 1, 4)
        mon1 = mon1.toordinal() - (mon1.isoweekday() - 1)
        exp_hang = mon1 - 1 - (datetime.date(iy, 1, 1).toordinal() - 1)
        exp_nwk = datetime.date(iy, 12, 28).isocalendar()[1]
        ok = (dt.year, dt.month, dt.day) == (y, m, d) and dt.isoweekday() == wd and \
            dt.timetuple().tm_yday == doy and (iso[0], iso[1]) == (iy, iw) and \
            int(dt.strftime('%U')) == wu and int(dt.strftime('%W')) == wm and \
            hang == exp_hang and nwk == exp_nwk and rel == 1
        if not ok:
            raise Broken('reference model disagrees with Python datetime at day %d: %s' % (dn, ln))
        n += 1
    if n != 911280:
        raise Broken('reference model self-test covered %d days, expected 911280' % n)
    # day-number bases
    # the project documents LDN like its daisy count: days since the reference
    # date 15 Oct 1582 (= day 0; the suite pins 2012-01-01 -> 156767)
    if datetime.date(1601, 1, 1).toordinal() - datetime.date(1582, 10, 15).toordinal() != 1 + 6652 or \
       datetime.date(2012, 1, 1).toordinal() - datetime.date(1582, 10, 15).toordinal() != 156767:
        raise Broken('LDN base')
    if datetime.date(1970, 1, 1).toordinal() - base != 134775:
        raise Broken('unix base')
    # matlab datenum(y,m,d) = python ordinal + 366
    if datetime.date(1601, 1, 1).toordinal() + 366 != 1 + 584754:
        raise Broken('MDN base')
    ctx.log('reference model == Python datetime on all %d days (%.1fs)' % (n, time.time() - t))
    return {'reference_selftest': 'h/ref.h compared with Python datetime on all 911280 days: '
            'ymd, weekday, day of year, ISO year/week, %U, %W, hang, weeks-in-year, LDN/MDN/Unix bases'}


def specname(sp):
    """a key-safe name for a format specifier"""
    m = {'%': '', '_': 'u', '-': 'minus', ' ': 'spc', '0': 'zero'}
    return ''.join(m.get(c, c) for c in sp)


# calendars' kernels (measure B): everything arithmetic of the calendars NOT in keep
def prune_cals(keep):
    cals = ['ymd', 'ymcw', 'ywd', 'yd', 'bizda', 'daisy']
    out = []
    for c in cals:
        if c in keep:
            continue
        out.append(r'__%s_(add_[bdwmy]|fixup(_[a-z])?|diff|to_[a-z]+)' % c)
    if 'ummulqura' not in keep:
        out += [r'__ldn_to_ummulqura', r'__ummulqura_to_ldn', r'__ummulqura_fixup']
    return out


def treekey(t):
    """key-safe name of an expression tree"""
    return re.sub(r'[^A-Za-z0-9]+', '_', t.replace(' ', '')).strip('_')
