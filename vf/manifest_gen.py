# manifest_gen.py -- writes MANIFEST.json from the table below
import json
import os

VERIF = os.path.dirname(os.path.dirname(os.path.abspath(__file__)))

CLAIMED = {
    'C01': dict(
        text=('Bounded model checking (CBMC) of the real lib/date-core.c: for every day of each year window '
              '(symbolic) dt_dconv, the static conversion kernels and the public getters agree with an '
              'independent proleptic-Gregorian/ISO-8601 reference for all 7x7 representation pairs; the '
              'thorough tier partitions 1601..4095 completely. Right level: the domain is finite and the '
              'solver decides each window for all of its days.'),
        note=('reference model h/ref.h; goto-cc front end with enum bit-fields rewritten to unsigned int '
              '(layout-probed); windows; JDN float text outside'),
        technique='CBMC bounded model checking of lib/date-core.c against a reference calendar, year-window case split',
        design='3/C01'),
    'C02': dict(
        text=('Bounded model checking of lib/date-core.c: dt_dconv round trips for every ordered pair of '
              '{ymd,ymcw,ywd,yd,daisy} per year window; Umm-al-Qura table round trip and successor relation '
              'for every day inside the table; for every date specifier the text printed by dt_strfd is '
              'compared byte-wise between the ymd-held value and each other representation, and between '
              'a specifier alone and after each record-filling predecessor. Formats are concrete, days symbolic.'),
        note=('reference day construction h/ref.h; formats enumerated (the program), not symbolic; '
              'Hijri month-12 fixup path excluded (row-overrun idiom not expressible in array semantics); '
              '47 (specifier, representation) pairs are listed known findings'),
        technique='CBMC bounded model checking of dt_dconv/dt_strfd per (format, representation, year window)',
        design='3/C02'),
    'C03': dict(
        text=('Bounded model checking of dt_dadd_d/dt_dadd_w/dt_dadd and the per-calendar carry kernels: '
              'start day symbolic per year window, signed count symbolic; the day number of the result '
              '(computed by the reference from its fields) equals start + n (7n). Loop calendars: |n| <= 62 d '
              '(ymd, ymcw) / 400 d (yd, ywd) with unwinding assertions; day-number calendars: every n.'),
        note='reference h/ref.h; counts beyond the carry-loop bounds outside the claim; bizda in C07',
        technique='CBMC bounded model checking of the add kernels against day-number arithmetic',
        design='3/C03'),
    'C04': dict(
        text=('Bounded model checking of dt_dadd_m/_y, dt_dadd(DURMO/DURQU/DURYR) and dt_dfixup for ymd, ymcw, '
              'ywd, yd: result equals the reference month arithmetic with ultimo/count/week clamp; '
              'composition +a then +b == +(a+b) on the lazily clamped values.'),
        note='reference h/ref.h; |n| <= 48 months (unwinding assertion), years unbounded inside the range; composition of month steps (ymd) and of month/year steps on count-weekday dates',
        technique='CBMC bounded model checking of month/year add + fixup against reference month arithmetic',
        design='3/C04'),
    'C07': dict(
        text=('Bounded model checking of lib/bizda.c through lib/date-core.c: __get_d_equiv for each start weekday '
              'and every count 1 <= |n| <= 2^20 is the offset of the n-th Mon-Fri day (relational oracle: counting '
              'function B(t)); dt_dadd_b per calendar; dt_ddiff(DURBD) counts and inverts the addition; every '
              'bizda month/index maps to the index-th business day of the month.'),
        note='oracle B(t) = 5*(t/7)+min(t%7,5); loop calendars bounded in |n|; one listed known finding, three defects fixed',
        technique='CBMC bounded model checking of the business-day closed forms against a counting oracle',
        design='3/C07'),
    'C08': dict(
        text=('Bounded model checking of dt_dcmp/__ymcw_cmp/dt_d_in_range_p over pairs and triples of symbolic days '
              'for ymd, ymcw, ywd, yd, daisy: the result is the sign of the difference of reference day numbers; '
              'in-range is lo <= d <= hi.'),
        note='canonical values assumed (produced by C01/C02-checked converters); sort(1), cut(1), pipes outside',
        technique='CBMC bounded model checking of comparison functions against the integer order of day numbers',
        design='3/C08'),
    'C11': dict(
        text=('Bounded model checking of lib/time-core.c and lib/dt-core.c: dt_tadd_s exact for every time of day '
              'and |n| < 86400 (its precondition inside dt_dtadd); dt_dtadd for s/m/h counts with the callee '
              'replaced by that proven contract; dt_dtdiff in seconds for every pair of day-number date-times '
              'within 40 days over the whole range; epoch <-> civil for every second of selected day windows '
              '(negative epochs, both range ends, leap days); 24:00:00 decays to next-day midnight.'),
        note=('reference: sum over units of field difference x unit length; assume-guarantee stub for dt_tadd_s '
              '(postcondition proven on the real function in the same run); counts bounded (s<=1024, m<=60, h<=30 '
              'quick) because 64-bit division by 86400 stalls the SAT back ends; SMT back ends crash on these units'),
        technique='CBMC bounded model checking with one assume-guarantee contract (dt_tadd_s)',
        design='3/C11'),
    'C14': dict(
        text=('Bounded model checking over the real generated leap-second table: table rows consistent with each '
              'other and with leap-seconds.list; the bisection returns the last entry strictly before the key for '
              'every 32-bit key (three columns); TAI-UTC/GPS-UTC and the virtual zones for every instant from 1900 '
              'to 2^40; monotonicity on every ordered pair; dt_dtadd of -5..5 real seconds started within 3 s of '
              'every listed leap second lands exactly N SI seconds later and shows :60 only on inserted seconds.'),
        note=('leap-seconds.list parsed by the runner is ground truth; ltrcc not encoded (its output is); '
              'ddiff %rS printing path is covered in C06; two defects found and fixed (bisection, 2038 truncation)'),
        technique='CBMC bounded model checking of lib/leaps.c, lib/tzraw.c offsets and dt_dtadd(tai) over the real table',
        design='3/C14'),
    'C12': dict(
        text=('Bounded model checking of lib/tzraw.c lookups: for fully symbolic transition tables of 0..8 entries '
              '(arbitrary instants, types, offsets) and any instant from the first transition on, zif_find_zrng '
              'returns the adjacent entries and zif_local_time adds the offset of the last transition <= t '
              '(linear-scan oracle); zif_utc_time returns a valid preimage whenever one exists; a concrete '
              '300-entry table covers transition numbers > 255. Non-termination is detected through failing '
              'unwinding assertions confirmed by a hanging replay.'),
        note=('tables as loaded (sorted, type index < nty); faithful loading (same-type merge only) decided for version 1 images of 3 transitions / 2 types (thorough: up to 5 / 3) with the C19 harness, loader memory safety and real files: C19; local->UTC for tables with '
              'transitions more than 64h apart; three defects found and fixed'),
        technique='CBMC bounded model checking of the zone lookup over symbolic transition tables',
        design='3/C12'),
    'C13': dict(
        text=('One inductive step per state-carrying component, from an arbitrary pre-state satisfying an explicit '
              'representation invariant: zone range cache (cold / range of any earlier instant / before-first), '
              'strops character table + cycle counter (all 256 entries symbolic), base date-time singleton under an '
              'arbitrary clock. Result == reference and invariant re-established, hence histories of any length.'),
        note=('composition argument to whole tool runs is stated, not solver-checked; output buffer / duration '
              'stack / alists not yet covered; OS state outside'),
        technique='CBMC single inductive step from arbitrary invariant-satisfying state',
        design='3/C13'),
    'C19': dict(
        text=('Bounded model checking of lib/tzraw.c:zif_open on file images of each exact size (heap object of '
              'exactly that size, content symbolic, header counts enumerated over small, zero and overflow-provoking '
              'values, v1 and v2 layouts): every read stays inside the image and every write inside the allocation '
              '(cbmc pointer/bounds checks incl. pointer overflow), and a returned object satisfies the table '
              'invariant (sorted transitions, type index < nty, nty > 0) under which C12 verifies the lookups; lib/tzmap.c: '
              'tzm_open/tzm_find on well-formed compiled maps with symbolic keys return exactly the mapped zone, and any small '
              'file with the map magic is refused or looked up inside the image.'),
        note=('open/fstat/mmap/munmap/close stubbed; header counts concrete per query (a symbolic allocation size '
              'needs 65 GB in cbmc); images <= 98 bytes quick / 128 thorough; zone map compiler not covered, map images <= 32 bytes; '
              'the unchecked loaders and a non-terminating map lookup were defects, fixed'),
        technique='CBMC memory-safety checking of the TZif loader on symbolic file images',
        design='3/C19'),
    'C17': dict(
        text=('Bounded model checking of src/dexpr.c: for each enumerated expression tree (all trees with <= 2 leaves '
              'and every negation placement, selected/all 3-leaf trees, 4-leaf distribution cases) and symbolic atoms '
              '(six operators, year specifier or date literal) and line value, matches(simplify(T), v) equals the '
              'Boolean/comparison reference with the line value as left operand, and free_dexpr releases no node twice.'),
        note=('flex/bison front end not encoded (trees built as the grammar builds them); calloc/free replaced by a typed '
              'node pool; the two unions of dexpr.h declared as structs for the solver only (real layout in replay); the action of '
              'the grammar for negation is taken as text from src/dexpr-parser.y; five defects found and fixed'),
        technique='CBMC bounded model checking per expression tree (program enumerated, inputs symbolic)',
        design='3/C17'),
    'C16': dict(
        text=('Bounded model checking of the static rounding functions of src/dround.c: value rounding of hour/minute/'
              'second (every time, target, direction, --next), co-class rounding of the time of day and of epoch values '
              '(negative included) for enumerated divisors of 86400, day-of-month, month and weekday targets for every '
              'day of the year windows, idempotence and the day carry through dt_round. Reference: field == target, '
              'finer fields kept, requested side, no nearer candidate.'),
        note=('targets as parsed durations (dt_io_strpdtrnd text not covered); ISO-week targets 1..52 and business-day targets 1..20 covered, month co-classes /N (N | 12) covered; week 53 and higher business-day indices '
              'outside; divisors enumerated (12 quick / 96 thorough); two defects found and fixed'),
        technique='CBMC bounded model checking of dround kernels against a relational nearest-target reference',
        design='3/C16'),
    'C06': dict(
        text=('Bounded model checking of src/ddiff.c: precalc for every subset of the units w d H M S on a symbolic '
              'seconds duration (sign flag, refined units in their natural ranges, coarsest carries the rest, components '
              'recombine to the duration truncated to the finest unit), the year/quarter/month split of symbolic ymd '
              'durations, and ltostr (text denotes the value, one minus sign, all widths and padding modes).'),
        note=('duration magnitude < 2^24 s quick / 2^31 s thorough (64-bit division chains stall SAT beyond), plus windows of 2^20 s at the 32-bit wrap points (2^31, 2^32; thorough up to 2^36) and at the far end of the calendar span; the '
              '__strfdtdur driver loop itself is covered for memory safety in C10; one defect found and fixed'),
        technique='CBMC bounded model checking of the ddiff unit cascade and number printer',
        design='3/C06'),
    'C05': dict(
        text=('Bounded model checking over pairs of symbolic dates from two year windows: dt_ddiff in days equals the '
              'difference of reference day numbers in every representation; the ymd / yd / ywd durations, re-applied to '
              'the earlier date largest unit first with the real dt_dadd_y/_m/_w/_d, land exactly on the later date; '
              'swapped operands give the same magnitude with the sign flipped.'),
        note=('earlier date with day of month <= 28 for month/year formats; business days in C07; the seconds difference of '
              'any two instants and the split of ymd durations in src/ddiff.c are included; ymcw month differences not '
              'covered; two defects fixed (__yd_diff, __ywd_diff)'),
        technique='CBMC bounded model checking of diff kernels composed with the add kernels (inverse law)',
        design='3/C05'),
    'C20': dict(
        text=('Bounded model checking of the locale setter state machine of lib/dt-locale.c (every sequence of up to 3/4 '
              'calls of set_il, set_fl, reset_il, reset_fl on distinct heap tables: input tables follow the last '
              '--from-locale, output tables the last --locale, nothing freed twice or while in use) and of the clock '
              'gate (massage_strpdt/dt_get_base with counting clock stubs: no clock read for records with a year, none at '
              'all once a base is set); plus a call-graph obligation on the goto program of every tool: no edge into '
              'localtime/mktime/tzset/setlocale/strftime/..., clock reads only in now_tv.'),
        note=('call-graph part is a static over-approximation by goto-instrument, not a solver query; getenv only for '
              'LOCALE_FILE/TZMAP_DIR (not checked); the --base gate includes time-only input with any subset of h/m/s given; the locale file parser (__setlocale, tokenise) is not covered; '
              'one defect found and fixed'),
        technique='CBMC bounded model checking of setter call sequences and the clock gate + goto call-graph reachability',
        design='3/C20'),
    'C10': dict(
        text=('Bounded model checking with cbmc bounds / pointer / pointer-overflow checks: __tok_spec on every format of '
              'the form percent + concrete modifier prefix + symbolic tail in an exact-size object (per-back-edge '
              'unwinding bounds prove no other modifier loop is taken); dt_strpd on enumerated formats with arbitrary '
              'input bytes in exact-size objects (end pointer inside the input); dt_strfd on enumerated formats with '
              'arbitrary in-range values and buffers of 1..11 bytes (never writes or reports more than the buffer holds); likewise the '
              'time and date-time parser and formatter drivers (dt_strpt, dt_strft, dt_strpdt, dt_strfdt) on enumerated formats, '
              'and the escape decoder dt_io_unescape on arbitrary strings.'),
        note=('formats enumerated (a symbolic format byte re-enters the tokeniser loops); strings <= 4 (quick) / 8 bytes; '
              'duration driver, dt_io_write, the flex/bison front end and the needle search are not '
              'yet covered; three defects found and fixed'),
        technique='CBMC memory-safety checking of tokeniser, date parser and date formatter on exact-size objects',
        design='3/C10'),
    'C09': dict(
        text=('Bounded model checking of dt_strfd followed by dt_strpd on lib/date-core.c for enumerated date formats '
              '(numeric, abbreviated and one-letter names, ordinals, unpadded, Roman, day-of-year, ISO week, '
              'count-weekday forms, and each calendar default with the format-less parser): for every day of the year '
              'window the parsed value is the original day in the original representation and the whole text is consumed.'),
        note=('formats enumerated (26 + defaults); English names only; long names left out (cbmc string-copy model gave '
              'non-replaying counterexamples); 13 time-of-day formats and the value layer of %s (epoch <-> civil, C11 harness) covered; date-time formats, the decimal text of %s, %Z and shipped locales not covered'),
        technique='CBMC bounded model checking of format/parse round trips per enumerated format',
        design='3/C09'),
    'C18': dict(
        text=('Bounded model checking of src/prchunk.c (prchunk_fill, prchunk_getline, prchunk_haslinep) on scaled '
              'window/chunk constants: the stream bytes (over LF, CR and two letters) and the size of every read() result '
              'are symbolic, so every way of cutting the stream into reads is covered; the lines handed to the consumer '
              'loop equal the reference split of the stream (no line lost, duplicated, split or merged; CR LF stripped; '
              'unterminated last line delivered), with cbmc bounds and pointer checks on the buffer.'),
        note=('window 2x4 / 3x3 bytes, chunk 2..3, streams <= 4 (quick) / 5 (thorough) bytes through the DATEUTILS_VERIF hook; '
              'the real constants (16384 lines, 16 MiB, 4096) are outside, as are the copy-through of the per-tool '
              'proc_line functions and read() errors; two defects found and fixed'),
        technique='CBMC bounded model checking of the chunk reader with symbolic stream and symbolic read schedule',
        design='3/C18'),
    'C15': dict(
        text=('Bounded model checking of the iteration core of src/dseq.c (__get_dir, __seq_this, __seq_next, '
              '__in_range_p, __fixup_fst, skipp, date_add), step by step from an arbitrary state: direction (0 iff the '
              'increment cannot move the value: refused), range test (iff LAST not passed, day carries of times included), '
              'this/next (first member not skipped, exactly one increment further, strictly beyond), from-last anchoring; for '
              'day numbers with d/w steps and every skip set, ymd dates with month/year steps, times of day with h/m/s and '
              'compound h+m steps. Assume-guarantee: dt_dtadd, dt_dtcmp, dt_dt_in_range_p, dt_get_wday inside dseq.c are '
              'contracts, proved equal to the real functions by separate obligations; the weekday is an arbitrary function '
              'of the day number for the solver.'),
        note=('a whole run (even four members) does not fit the solver: the steps compose to the printed progression and '
              'to termination by an induction argued in DESIGN 8.4, not by a query; main() argument handling, date-time '
              'sequences, alternative increments, business days, skip sets with month steps or times, equal time bounds '
              'outside; two defects found and fixed'),
        technique='CBMC bounded model checking of each step of the dseq iteration from arbitrary states, assume-guarantee on library calls',
        design='8.4'),
}

NA = {}


def main():
    props = [json.loads(l)['id'] for l in open(os.path.join(VERIF, 'properties.jsonl'))]
    checks = []
    for pid in props:
        if pid not in CLAIMED:
            continue
        c = CLAIMED[pid]
        checks.append({
            'property_id': pid,
            'quick_cmd': './check %s --tier quick' % pid,
            'thorough_cmd': './check %s --tier thorough' % pid,
            'evidence_file': 'evidence/%s.json' % pid,
            'replay_cmd_template': './check %s --replay {path}' % pid,
            'engine': 'cbmc',
            'level_claimed': {'category': 'model_checking', 'text': c['text'],
                              'design_ref': 'DESIGN.md section ' + c['design']},
            'level_note': c['note'],
            'technique': c['technique'],
        })
    na = []
    for pid in props:
        if pid not in CLAIMED:
            na.append({'property_id': pid,
                       'reason': NA.get(pid, 'check not built yet in this round (planned, see DESIGN.md section 3)')})
    m = {
        'version': 1,
        'setup_cmd': 'true',
        'hooks': {
            'guard': 'DATEUTILS_VERIF',
            'enable': 'harnesses are compiled with -DDATEUTILS_VERIF by goto-cc/gcc in a scratch copy of /repo',
            'baseline_off_cmd': 'make -C /repo -k check',
            'source_commits': ['33ccd95e459472dcdd0da112b1f03c9706e33e59'],
            'add_only': True,
        },
        'engines': [{'name': 'cbmc', 'path': 'vf/core.py',
                     'serves_properties': [c['property_id'] for c in checks],
                     'kind_free_text': 'bounded symbolic model checking of the real C translation units (goto-cc + cbmc 6.11, cadical)'}],
        'checks': checks,
        'not_applicable': na,
        'notes': 'see DESIGN.md; known-findings.txt lists recorded defects',
    }
    with open(os.path.join(VERIF, 'MANIFEST.json'), 'w') as fh:
        json.dump(m, fh, indent=1)
        fh.write('\n')


if __name__ == '__main__':
    main()
