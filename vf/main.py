# main.py -- command line: ./check <id> [--tier quick|thorough] [--replay file]
import importlib
import json
import os
import re
import sys

from . import core


def replay_file(prop, path):
    """re-run a recorded counterexample against the current /repo"""
    hdr = {}
    with open(path) as fh:
        for ln in fh:
            m = re.match(r'# (\w+)=(.*)', ln)
            if m:
                hdr[m.group(1)] = m.group(2).strip()
            m = re.match(r'# harness=(\S+) func=(\S+) mode=(\S+)', ln)
            if m:
                hdr['harness'], hdr['func'], hdr['mode'] = m.groups()
    ctx = core.Ctx(prop, 'quick', 0)
    try:
        ctx.snapshot()
        defs = json.loads(hdr.get('defs', '{}'))
        units = json.loads(hdr.get('units', '[]'))
        out, rc = ctx.run_replay(hdr['harness'], hdr['func'], defs, hdr['mode'], path, units)
        print(out)
        return 1 if ('REPLAY-FAIL' in out or 'AddressSanitizer' in out or 'runtime error' in out) else 0
    finally:
        ctx.cleanup()


def main(argv):
    if not argv:
        print(__doc__ or 'usage: check <id> [--tier quick|thorough] [--replay file]')
        return 2
    prop = argv[0]
    tier = os.environ.get('VERIF_TIER', 'quick')
    seed = int(os.environ.get('VERIF_SEED', '0') or 0)
    replay = None
    i = 1
    while i < len(argv):
        if argv[i] == '--tier':
            tier = argv[i + 1]
            i += 2
        elif argv[i] == '--replay':
            replay = argv[i + 1]
            i += 2
        else:
            i += 1
    if tier not in ('quick', 'thorough'):
        tier = 'quick'
    if replay:
        return replay_file(prop, replay)
    mod = importlib.import_module('vf.props.' + prop)
    return mod.run(tier, seed)


if __name__ == '__main__':
    sys.exit(main(sys.argv[1:]))
