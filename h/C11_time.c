/* C11 -- time-of-day and epoch arithmetic is exact across midnight
 * unit under test: lib/dt-core.c (textually; dt_dtadd, dt_dtdiff, dt_dtconv,
 * __to_unix_epoch, __sexy_to_daisy, __sexy_add, dt_milfup, need_milfup_p),
 * linked with the real lib/time-core.c (dt_tadd_s, dt_tdiff_s) and
 * lib/date-core.c */
#include "vf.h"
#include "ref.h"
/* the generated leap-second arrays in this unit (cbmc 6.11 trips over the
 * incomplete extern array types when they come from another goto binary) */
#include "leap-seconds.def"
#if defined VF_CBMC && defined STUB_TADD
/* assume-guarantee (DESIGN 2.4): inside dt_dtadd the callee dt_tadd_s is
 * replaced by its contract, which h_tadd proves of the real function */
# define dt_tadd_s	stub_dt_tadd_s
#endif
#include "dt-core.c"
#if defined VF_CBMC && defined STUB_TADD
i32 nondet_i32(void);
struct dt_t_s
stub_dt_tadd_s(struct dt_t_s t, int durs, int corr)
{
	int sec = t.hms.h * 3600 + t.hms.m * 60 + t.hms.s;
	i32 h2 = nondet_i32(), m2 = nondet_i32(), s2 = nondet_i32(), c2 = nondet_i32();

	/* precondition established by the caller */
	__CPROVER_assert(durs > -86400 && durs < 86400 && corr == 0, "dt_tadd_s precondition");
	__CPROVER_assert(t.hms.h <= 24 && t.hms.m <= 59 && t.hms.s <= 60, "dt_tadd_s precondition: time valid");
	/* postcondition proven by h_tadd */
	__CPROVER_assume(h2 >= 0 && h2 <= 23 && m2 >= 0 && m2 <= 59 && s2 >= 0 && s2 <= 59);
	__CPROVER_assume(c2 >= -2 && c2 <= 2);
	__CPROVER_assume(c2 * 86400 + h2 * 3600 + m2 * 60 + s2 == sec + durs);
	t.hms.h = h2, t.hms.m = m2, t.hms.s = s2;
	t.typ = DT_HMS;
	t.neg = 0;
	t.carry = c2;
	return t;
}
#endif
#include "vfh_cal.h"
#include "vfh_dt.h"

#if !defined REP
# define REP	R_DAISY
#endif
#if !defined UNIT
# define UNIT	DT_DURS
#endif
#if !defined NMAX
# define NMAX	2147483647
#endif
#if !defined TGT
# define TGT	DT_DAISY
#endif
#if !defined DLO
# define DLO	(REF_UNIX_BASE - 3)
# define DHI	(REF_UNIX_BASE + 3)
#endif
#if !defined KMAX
# define KMAX	400
#endif

/* (1) seconds-since-midnight addition with floor division and carry */
void
h_tadd(void)
{
	ND_TOD(h, m, s, vt);
	ND(i32, vn);
	struct dt_t_s t, r;
	int tot, rs;

	/* dt_dtadd hands over |n| < 86400 (it splits off whole days first) */
	ASSUME(vn > -86400 && vn < 86400);
	memset(&t, 0, sizeof(t));
	t.typ = DT_HMS;
	t.hms.h = h, t.hms.m = m, t.hms.s = s;
	r = dt_tadd_s(t, vn, 0);
	tot = h * 3600 + m * 60 + s + vn;
	rs = r.hms.h * 3600 + r.hms.m * 60 + r.hms.s;
	CHECK(r.hms.h <= 23 && r.hms.m <= 59 && r.hms.s <= 59, "fields in their natural ranges");
	CHECK(r.carry >= -2 && r.carry <= 2, "carry fits its slot");
	CHECK(r.carry * 86400 + rs == tot, "carry days + seconds of day == seconds of day + n");
	WITNESS();
}

static i64
unit_secs(void)
{
	return UNIT == DT_DURH ? 3600 : UNIT == DT_DURM ? 60 : 1;
}

/* (2) adding h/m/s to a date-time moves its Unix seconds by exactly that much */
void
h_dtadd(void)
{
	ND_DAY(r);
	ND_TOD(h, m, s, vt);
	ND(i32, vn);
	struct dt_dt_s x = mk_dt(REP, r, h, m, s);
	struct dt_dtdur_s dur;
	struct dt_dt_s y;
	int yn;

	ASSUME(vn >= -NMAX && vn <= NMAX);
	/* result inside the supported range: NMAX units are less than 400 days */
	ASSUME(r.n > 400 && r.n < REF_MAX_DAY - 400);
	memset(&dur, 0, sizeof(dur));
	dur.durtyp = (dt_dtdurtyp_t)UNIT;
	dur.dv = vn;
	y = dt_dtadd(x, dur);
	yn = rep_days(y.d);
	CHECK(y.t.hms.h <= 23 && y.t.hms.m <= 59 && y.t.hms.s <= 59, "time fields in range");
	CHECK(yn > 0 && y.sandwich, "result is a valid date-time");
	CHECK(ref_delta(r.n, h, m, s, yn, y.t.hms.h, y.t.hms.m, y.t.hms.s) == (i64)vn * unit_secs(),
	      "Unix seconds moved by exactly n units");
	WITNESS();
}

/* (2b) the same for values held as day numbers: no calendar reasoning is
 * involved, so the day ranges over the whole supported range at once */
void
h_dtadd_daisy(void)
{
	ND(i32, vdn);
	ND_TOD(h, m, s, vt);
	ND(i32, vn);
	struct refday r;
	struct dt_dt_s x;
	struct dt_dtdur_s dur;
	struct dt_dt_s y;
	i64 dd;

	ASSUME(vdn >= 1 && vdn <= REF_MAX_DAY);
	memset(&r, 0, sizeof(r));
	r.n = vdn;
	x = mk_dt(R_DAISY, r, h, m, s);
	ASSUME(vn >= -NMAX && vn <= NMAX);
	memset(&dur, 0, sizeof(dur));
	dur.durtyp = (dt_dtdurtyp_t)UNIT;
	dur.dv = vn;
	y = dt_dtadd(x, dur);
	CHECK(y.t.hms.h <= 23 && y.t.hms.m <= 59 && y.t.hms.s <= 59, "time fields in range");
	CHECK(y.d.typ == DT_DAISY && y.sandwich, "still a day-number date-time");
	/* whenever the result stays inside the supported range */
	dd = (i64)(int)y.d.daisy;
	if (dd >= 1 && dd <= REF_MAX_DAY) {
		CHECK(ref_delta(vdn, h, m, s, (int)dd, y.t.hms.h, y.t.hms.m, y.t.hms.s) == (i64)vn * unit_secs(),
		      "Unix seconds moved by exactly n units");
	}
	WITNESS();
}

/* (3) difference in seconds == difference of the Unix-seconds values */
void
h_dtdiff(void)
{
	ND(i32, van);
	ND_TOD(h1, m1, s1, vt);
	ND_TOD(h2, m2, s2, vu);
	ND(i32, vk);
	struct refday a, b;
	struct dt_dt_s x, y;
	struct dt_dtdur_s d;

	/* values held as day numbers: every day of the range, second day
	 * within KMAX days */
	ASSUME(van >= 1 && van <= REF_MAX_DAY);
	ASSUME(vk >= -KMAX && vk <= KMAX);
	memset(&a, 0, sizeof(a));
	a.n = van;
	b = a;
	b.n = a.n + vk;
	ASSUME(b.n >= 1 && b.n <= REF_MAX_DAY);
	x = mk_dt(R_DAISY, a, h1, m1, s1);
	y = mk_dt(R_DAISY, b, h2, m2, s2);
	d = dt_dtdiff((dt_dtdurtyp_t)DT_DURS, x, y);
	CHECK(d.durtyp == DT_DURS, "seconds duration");
	CHECK((i64)d.dv == ref_delta(a.n, h1, m1, s1, b.n, h2, m2, s2),
	      "difference in seconds == difference of Unix seconds");
	/* and through the epoch conversion the tools use for %s */
	CHECK((i64)__to_unix_epoch(x) == ref_delta(REF_UNIX_BASE, 0, 0, 0, a.n, h1, m1, s1), "__to_unix_epoch");
	WITNESS();
}

/* (4) epoch <-> civil, including negative epochs (floor semantics) */
void
h_epoch(void)
{
	ND(i64, vsx);
	struct dt_dt_s c;
	struct dt_dt_s sx;
	struct dt_dt_s back;
	i64 day, sod;

	/* every second of the days DLO..DHI (day numbers) */
	ASSUME(vsx >= ref_epoch(DLO, 0, 0, 0));
	ASSUME(vsx <= ref_epoch(DHI, 23, 59, 59));
	/* floor division by the reference */
	day = vsx >= 0 ? vsx / 86400 : -((-vsx + 86399) / 86400);
	sod = vsx - day * 86400;
#if defined KF_EXCL_daisy_tail || defined KF_ONLY_daisy_tail
	KF_DAISY_TAIL((int)(day + REF_UNIX_BASE));
#endif
	memset(&sx, 0, sizeof(sx));
	sx.typ = DT_SEXY;
	sx.sexy = vsx;
	c = dt_dtconv((dt_dttyp_t)TGT, sx);
	CHECK(c.sandwich, "civil value is a date-time");
	CHECK(rep_days(c.d) == (int)(day + REF_UNIX_BASE), "civil date of the epoch value");
	CHECK((i64)((c.t.hms.h * 60 + c.t.hms.m) * 60 + c.t.hms.s) == sod &&
	      c.t.hms.h <= 23 && c.t.hms.m <= 59 && c.t.hms.s <= 59, "civil time of the epoch value");
	back = dt_dtconv(DT_SEXY, c);
	CHECK(back.typ == DT_SEXY && (i64)back.sexy == vsx, "civil -> epoch returns the same seconds");
	WITNESS();
}

/* (5) 24:00:00 on day D is 00:00:00 on day D+1 */
void
h_milfup(void)
{
	ND_DAY(r);
	struct dt_dt_s x = mk_dt(REP, r, 24, 0, 0);
	struct dt_dt_s y;

	ASSUME(r.n < REF_MAX_DAY);
	y = dt_milfup(x);
	CHECK(y.t.hms.h == 0 && y.t.hms.m == 0 && y.t.hms.s == 0, "midnight");
	CHECK(rep_days(y.d) == r.n + 1, "of the following day");
	CHECK(need_milfup_p("%F %M") && !need_milfup_p("%FT%T") && !need_milfup_p("%H") && need_milfup_p("%I"),
	      "decay unless %H or %T shows the 24");
	WITNESS();
}
