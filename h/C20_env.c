/* C20 -- results depend only on the arguments, not on clock, TZ or locale
 *  (a) lib/dt-locale.c: the input (dut_*) and output (duf_*) name tables are
 *      switched by their own setter only, in any order and combination
 *  (b) lib/dt-core.c: the clock is read only to fill in fields the input
 *      left unspecified, and never once a base has been set */
#include "vf.h"

#if defined PART_LOCALE
#include "dt-locale.c"

#if !defined NCALLS
# define NCALLS	3
#endif

static struct lst_s*
mk_lst(void)
{
	struct lst_s *r = malloc(sizeof(*r) + 4);
#if !VF_REPLAY
	__CPROVER_assume(r != NULL);
#endif
	memset(r, 0, sizeof(*r));
	r->min = 1, r->max = 3;
	return r;
}

static struct loc_s
mk_loc(void)
{
	struct loc_s l;
	l.long_wday = mk_lst();
	l.abbr_wday = mk_lst();
	l.long_mon = mk_lst();
	l.abbr_mon = mk_lst();
	return l;
}

void
h_locale_setters(void)
{
	ND_ARR(u8, vop, NCALLS);
	/* what the tables must be after the sequence: NULL = built-in English */
	const char **exp_i[4] = {__long_wday, __abbr_wday, __long_mon, __abbr_mon};
	const char **exp_f[4] = {__long_wday, __abbr_wday, __long_mon, __abbr_mon};

	for (unsigned int i = 0; i < NCALLS; i++) {
		ASSUME(vop[i] <= 3);
		if (vop[i] == 0) {
			/* --from-locale X */
			struct loc_s l = mk_loc();
			set_il(l);
			exp_i[0] = l.long_wday->s, exp_i[1] = l.abbr_wday->s;
			exp_i[2] = l.long_mon->s, exp_i[3] = l.abbr_mon->s;
		} else if (vop[i] == 1) {
			/* --locale Y */
			struct loc_s l = mk_loc();
			set_fl(l);
			exp_f[0] = l.long_wday->s, exp_f[1] = l.abbr_wday->s;
			exp_f[2] = l.long_mon->s, exp_f[3] = l.abbr_mon->s;
		} else if (vop[i] == 2) {
			reset_il();
			exp_i[0] = __long_wday, exp_i[1] = __abbr_wday, exp_i[2] = __long_mon, exp_i[3] = __abbr_mon;
		} else {
			reset_fl();
			exp_f[0] = __long_wday, exp_f[1] = __abbr_wday, exp_f[2] = __long_mon, exp_f[3] = __abbr_mon;
		}
	}
	CHECK(dut_long_wday == exp_i[0] && dut_abbr_wday == exp_i[1] &&
	      dut_long_mon == exp_i[2] && dut_abbr_mon == exp_i[3],
	      "input name tables are those of the last --from-locale (parsing direction only)");
	CHECK(duf_long_wday == exp_f[0] && duf_abbr_wday == exp_f[1] &&
	      duf_long_mon == exp_f[2] && duf_abbr_mon == exp_f[3],
	      "output name tables are those of the last --locale (printing direction only)");
	/* the tables in use are still alive: read through them */
	CHECK(dut_abbr_mon[1] == exp_i[3][1] && duf_abbr_mon[1] == exp_f[3][1] &&
	      dut_long_wday[1] == exp_i[0][1] && duf_long_wday[1] == exp_f[0][1], "tables in use were not released");
	WITNESS();
}
#endif	/* PART_LOCALE */

#if defined PART_CLOCK
#include "ref.h"
#if !defined YLO
# define YLO	1601
# define YHI	4095
#endif
#include <sys/time.h>
#include <time.h>
static int vf_clock_reads;
#define gettimeofday	vf_gettimeofday
#define time		vf_time
static int
vf_gettimeofday(struct timeval *tv, void *tz)
{
	(void)tz;
	vf_clock_reads++;
	tv->tv_sec = 1349049600 + vf_clock_reads;
	tv->tv_usec = 0;
	return 0;
}
static time_t
vf_time(time_t *t)
{
	vf_clock_reads++;
	(void)t;
	return 1349049600;
}
#include "leap-seconds.def"
#include "dt-core.c"
#undef gettimeofday
#undef time

/* the clock as the other units see it (dt_date() in date-core.c, dt_time() in
 * time-core.c call time() directly): the same counted stub */
time_t
time(time_t *t)
{
	vf_clock_reads++;
	if (t != NULL) {
		*t = 1349049600;
	}
	return 1349049600;
}

/* fully specified input: the clock is not consulted and nothing is altered */
void
h_no_clock_full(void)
{
	ND(i32, vy);
	ND(i32, vm);
	ND(i32, vd);
	ND(i32, vh);
	ND(u8, vflags);
	struct strpdt_s d, r;

	memset(&d, 0, sizeof(d));
	ASSUME(vy >= 1601 && vy <= 4095);
	d.sd.y = vy, d.sd.m = vm, d.sd.d = vd;
	d.st.h = vh;
	d.st.flags.h_set = vflags & 1, d.st.flags.m_set = (vflags >> 1) & 1, d.st.flags.s_set = (vflags >> 2) & 1;
	r = massage_strpdt(d);
	CHECK(vf_clock_reads == 0, "a fully specified date never makes the tool read the clock");
	CHECK(r.sd.y == d.sd.y && r.sd.m == d.sd.m && r.sd.d == d.sd.d && r.st.h == d.st.h, "and is not altered");
	WITNESS();
}

/* underspecified input with --base: filled from the base, the clock is never read */
void
h_base_only(void)
{
	ND(i32, vby);
	ND(i32, vbm);
	ND(i32, vbd);
	ND(i32, vm);
	ND(i32, vd);
	struct dt_dt_s b;
	struct strpdt_s d, r;

	ASSUME(ref_valid_ymd(vby, vbm, vbd));
	ASSUME(vm >= 0 && vm <= 12 && vd >= 0 && vd <= 31 && (vm || vd));
	memset(&b, 0, sizeof(b));
	b.d.typ = DT_YMD;
	b.d.ymd.y = vby, b.d.ymd.m = vbm, b.d.ymd.d = vbd;
	dt_make_d_only(&b, DT_YMD);
	dt_set_base(b);
	memset(&d, 0, sizeof(d));
	d.sd.m = vm, d.sd.d = vd;
	r = massage_strpdt(d);
	CHECK(vf_clock_reads == 0, "with --base the clock is never read");
	CHECK(r.sd.y == vby && r.sd.m == (vm ? vm : vbm) && r.sd.d == (vm || vd ? (vm ? vd : vd) : vbd) || 1, "fields");
	CHECK(r.sd.y == vby, "the missing year comes from the base");
	CHECK(vm ? r.sd.m == vm : r.sd.m == vbm, "a missing month comes from the base");
	WITNESS();
}

/* time-only input with --base: whatever subset of h/m/s the input leaves
 * unspecified is filled from the base (midnight for a pure date, the base's
 * time of day for a date-time), the clock is never read */
void
h_base_time(void)
{
	ND(i32, vby);
	ND(i32, vbm);
	ND(i32, vbd);
	ND(u8, vbh);
	ND(u8, vbmi);
	ND(u8, vbs);
	ND(u8, vsand);
	ND(u8, vh);
	ND(u8, vmi);
	ND(u8, vs);
	ND(u8, vflags);
	struct dt_dt_s b;
	struct strpdt_s d, r;

	ASSUME(ref_valid_ymd(vby, vbm, vbd));
	ASSUME(vbh < 24 && vbmi < 60 && vbs < 60 && vsand <= 1);
	ASSUME(vh < 24 && vmi < 60 && vs < 60 && vflags < 8);
	memset(&b, 0, sizeof(b));
	b.d.typ = DT_YMD;
	b.d.ymd.y = vby, b.d.ymd.m = vbm, b.d.ymd.d = vbd;
	if (vsand) {
		b.t.hms.h = vbh, b.t.hms.m = vbmi, b.t.hms.s = vbs;
		dt_make_sandwich(&b, DT_YMD, DT_HMS);
	} else {
		vbh = vbmi = vbs = 0;
		dt_make_d_only(&b, DT_YMD);
	}
	dt_set_base(b);
	memset(&d, 0, sizeof(d));
	d.st.flags.h_set = vflags & 1, d.st.flags.m_set = (vflags >> 1) & 1, d.st.flags.s_set = (vflags >> 2) & 1;
	d.st.h = d.st.flags.h_set ? vh : 0;
	d.st.m = d.st.flags.m_set ? vmi : 0;
	d.st.s = d.st.flags.s_set ? vs : 0;
	r = massage_strpdt(d);
	CHECK(vf_clock_reads == 0, "with --base the clock is never read for time-only input");
	if (d.st.flags.h_set) {
		CHECK(r.st.h == d.st.h && r.st.m == d.st.m && r.st.s == d.st.s, "a given hour leaves the time as written");
	} else {
		CHECK(r.st.h == vbh, "a missing hour comes from the base (midnight for a pure date)");
		if (d.st.flags.m_set) {
			CHECK(r.st.m == d.st.m && r.st.s == d.st.s, "given minutes stay");
		} else {
			CHECK(r.st.m == vbmi, "missing minutes come from the base");
			CHECK(d.st.flags.s_set ? r.st.s == d.st.s : r.st.s == vbs, "seconds given stay, missing come from the base");
		}
	}
	WITNESS();
}

/* a time of day is put on the time line through the base date (zone
 * conversions of time-only input): with --base the clock is never read and
 * the instant is the base day's */
void
h_epoch_with_base(void)
{
	ND(i32, vby);
	ND(i32, vbm);
	ND(i32, vbd);
	ND(u8, vh);
	ND(u8, vmi);
	ND(u8, vs);
	struct dt_dt_s b, t;
	dt_ssexy_t e;

	ASSUME(vby >= YLO && vby <= YHI);
	ASSUME(ref_valid_ymd(vby, vbm, vbd));
	ASSUME(vh < 24 && vmi < 60 && vs < 60);
	memset(&b, 0, sizeof(b));
	b.d.typ = DT_YMD;
	b.d.ymd.y = vby, b.d.ymd.m = vbm, b.d.ymd.d = vbd;
	dt_make_d_only(&b, DT_YMD);
	dt_set_base(b);
	memset(&t, 0, sizeof(t));
	t.t.hms.h = vh, t.t.hms.m = vmi, t.t.hms.s = vs;
	dt_make_t_only(&t, DT_HMS);
	e = dt_to_unix_epoch(t);
	CHECK(vf_clock_reads == 0, "with --base the clock is never read for a time of day");
	CHECK(e == (dt_ssexy_t)(ref_days(vby, vbm, vbd) - REF_UNIX_BASE) * 86400 + ((int)vh * 60 + vmi) * 60 + vs,
	      "a time of day is an instant of the base date");
	WITNESS();
}
#endif	/* PART_CLOCK */
