/* C17 -- dgrep expressions: matches(simplify(T), v) == [[T]](v), and releasing
 * the tree frees every node at most once
 * unit under test: src/dexpr.c (textually, STANDALONE so that the flex/bison
 * front end is left out): __denega, __nega_kv, __dnf, dexpr_copy(_j),
 * dexpr_simplify, dexkv_matches_p, __conj_matches_p, __disj_matches_p,
 * free_dexpr; linked with the real lib units for comparisons
 * TREE is a concrete shape (the program), atoms and the line value symbolic */
#include "vf.h"
#include "ref.h"
#include <stdlib.h>
#include <string.h>

/* typed node pool instead of calloc (cbmc's calloc yields untyped bytes,
 * which defeats field sensitivity); free is tracked per node */
#define NPOOL	40
static int vf_double_free;
static int vf_foreign_free;
static void *vf_calloc(size_t n, size_t sz);
static void vf_free(void *p);

#if defined VF_CBMC
/* cbmc encodes a union that holds pointers through byte updates, every
 * dereference of root->right then case-splits over all objects and symex
 * does not finish.  The two unions of dexpr.h (kv | right,up and d | s) are
 * never used for type punning by correct code, so for the solver they are
 * declared as structs; the replay build uses the real layout. */
# include "dt-core.h"
# include "token.h"
# define union	struct
# include "dexpr.h"
# undef union
#endif
#define STANDALONE
#define main	dexpr_standalone_main
#define calloc	vf_calloc
#define free	vf_free
#if defined VF_CBMC
/* dexpr_copy()'s memcpy(res, src, sizeof(*res)) of one node: a typed struct
 * assignment for the solver (a byte-wise copy of a struct holding pointers
 * makes symex crawl) */
# define memcpy(d, s, n)	(*(d) = *(s))
#endif
#include "dexpr.c"
#if defined VF_CBMC
# undef memcpy
#endif
#undef calloc
#undef free
#undef main

static struct dexpr_s vf_pool[NPOOL];
static unsigned char vf_freed[NPOOL];
static unsigned int vf_npool;

static void*
vf_calloc(size_t n, size_t sz)
{
	struct dexpr_s *r;
	(void)n, (void)sz;
	if (vf_npool >= NPOOL) {
		return NULL;
	}
	r = &vf_pool[vf_npool++];
	{
		/* typed zero assignment (a memset would turn the node into
		 * untyped bytes for cbmc) */
		static const struct dexpr_s zero;
		*r = zero;
	}
	return r;
}

static void
vf_free(void *p)
{
	struct dexpr_s *q = p;
	if (q < vf_pool || q >= vf_pool + NPOOL) {
		vf_foreign_free = 1;
		return;
	}
	if (vf_freed[q - vf_pool]) {
		vf_double_free = 1;
	}
	vf_freed[q - vf_pool] = 1;
}

int
dexpr_parse(dexpr_t *root, const char *s, size_t l)
{
	(void)root, (void)s, (void)l;
	return -1;
}

/* ---- reference semantics over a mirror of the tree ---- */
#if !defined NLEAF
# define NLEAF	4
#endif
#if !defined KINDMASK
# define KINDMASK	0
#endif
struct rnode {
	int type;	/* 0 leaf, 1 and, 2 or */
	int nega;
	int l, r;	/* children / leaf id in l */
};
static struct rnode rt[NPOOL];
static int nrt;

static int leaf_op[NLEAF];	/* OP_EQ..OP_NE */
static int leaf_kind[NLEAF];	/* 0: %Y spec, 1: date literal */
static int leaf_y[NLEAF], leaf_m[NLEAF], leaf_d[NLEAF];
static dexpr_t leaf_node[NLEAF];

struct pair {
	dexpr_t d;
	int r;
};

static struct pair
mk_leaf(int i)
{
	struct pair p;
	p.d = vf_calloc(1, sizeof(struct dexpr_s));
	p.d->type = DEX_VAL;
	p.d->kv->op = leaf_op[i];
	if (leaf_kind[i]) {
		p.d->kv->sp.spfl = DT_SPFL_N_STD;
		p.d->kv->d.d.typ = DT_YMD;
		p.d->kv->d.d.ymd.y = leaf_y[i];
		p.d->kv->d.d.ymd.m = leaf_m[i];
		p.d->kv->d.d.ymd.d = leaf_d[i];
		dt_make_d_only(&p.d->kv->d, DT_YMD);
	} else {
		p.d->kv->sp.spfl = DT_SPFL_N_YEAR;
		p.d->kv->sp.abbr = DT_SPMOD_LONG;
		p.d->kv->s = leaf_y[i];
	}
	leaf_node[i] = p.d;
	p.r = nrt;
	rt[nrt].type = 0, rt[nrt].nega = 0, rt[nrt].l = i, rt[nrt].r = -1;
	nrt++;
	return p;
}

static struct pair
mk_node(int type, struct pair a, struct pair b)
{
	struct pair p;
	p.d = vf_calloc(1, sizeof(struct dexpr_s));
	p.d->type = type == 1 ? DEX_CONJ : DEX_DISJ;
	p.d->left = a.d;
	p.d->right = b.d;
	p.r = nrt;
	rt[nrt].type = type, rt[nrt].nega = 0, rt[nrt].l = a.r, rt[nrt].r = b.r;
	nrt++;
	return p;
}

/* what the grammar does for `! stmt': the text of the action in
 * src/dexpr-parser.y, handed over by the runner with the operand spelt (a.d);
 * the reference negates the meaning of the operand */
#if !defined GRAMMAR_NOT_ACTION
# define GRAMMAR_NOT_ACTION	(a.d)->nega = 1
#endif
static struct pair
mk_not(struct pair a)
{
	GRAMMAR_NOT_ACTION;
	rt[a.r].nega ^= 1;
	return a;
}

#define L(i)		mk_leaf(i)
#define AND(a, b)	mk_node(1, a, b)
#define OR(a, b)	mk_node(2, a, b)
#define NOT(a)		mk_not(a)

#if !defined TREE
# define TREE	NOT(OR(L(0), L(1)))
#endif
#if !defined DEPTH
# define DEPTH	4
#endif

static int vy, vm, vd;	/* the line's value */

static int
cmp_op(int op, int c)
{
	switch (op) {
	case OP_EQ: return c == 0;
	case OP_LT: return c < 0;
	case OP_LE: return c <= 0;
	case OP_GT: return c > 0;
	case OP_GE: return c >= 0;
	case OP_NE: return c != 0;
	default: return 0;
	}
}

static int
ref_leaf(int i)
{
	int c;
	if (leaf_kind[i]) {
		/* chronological order of two valid dates: lexicographic in (y, m, d) */
		int a = (vy * 16 + vm) * 32 + vd, b = (leaf_y[i] * 16 + leaf_m[i]) * 32 + leaf_d[i];
		c = (a > b) - (a < b);
	} else {
		/* left operand is the line's value: year(value) OP constant */
		c = (vy > leaf_y[i]) - (vy < leaf_y[i]);
	}
	return cmp_op(leaf_op[i], c);
}

static int
ref_eval(int n)
{
	int v;
	if (rt[n].type == 0) {
		v = ref_leaf(rt[n].l);
	} else if (rt[n].type == 1) {
		v = ref_eval(rt[n].l) && ref_eval(rt[n].r);
	} else {
		v = ref_eval(rt[n].l) || ref_eval(rt[n].r);
	}
	return rt[n].nega ? !v : v;
}

void
h_dexpr(void)
{
	ND_ARR(u8, vop, NLEAF);
	ND_ARR(i32, vly, NLEAF);
	ND_ARR(u8, vlm, NLEAF);
	ND_ARR(u8, vld, NLEAF);
	ND(i32, vvy);
	ND(u8, vvm);
	ND(u8, vvd);
	struct pair root;
	struct dt_dt_s val;
	bool got;

	for (int i = 0; i < NLEAF; i++) {
		ASSUME(vop[i] >= OP_EQ && vop[i] <= OP_NE);
		ASSUME(vly[i] >= 1998 && vly[i] <= 2002);
		ASSUME(ref_valid_ymd(vly[i], vlm[i], vld[i]));
		leaf_op[i] = vop[i], leaf_kind[i] = (KINDMASK >> i) & 1;
		leaf_y[i] = vly[i], leaf_m[i] = vlm[i], leaf_d[i] = vld[i];
	}
	ASSUME(vvy >= 1998 && vvy <= 2002 && ref_valid_ymd(vvy, vvm, vvd));
	vy = vvy, vm = vvm, vd = vvd;

	root = TREE;
	memset(&val, 0, sizeof(val));
	val.d.typ = DT_YMD;
	val.d.ymd.y = vy, val.d.ymd.m = vm, val.d.ymd.d = vd;
	dt_make_d_only(&val, DT_YMD);

	dexpr_simplify(root.d);
	got = dexpr_matches_p(root.d, val);
	CHECK(got == (bool)ref_eval(root.r), "a line is selected iff the expression is true of its date");
	free_dexpr(root.d);
	CHECK(!vf_double_free, "releasing the tree frees no node twice");
	CHECK(!vf_foreign_free, "only nodes that were allocated are freed");
	WITNESS();
}
