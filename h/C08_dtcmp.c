/* C08 (date-times, times) -- comparison is the chronological total order
 * unit under test: lib/dt-core.c (dt_dtcmp, dt_dt_in_range_p), lib/time-core.c
 * (dt_tcmp) */
#include "vf.h"
#include "ref.h"
#include "leap-seconds.def"
#include "dt-core.c"
#include "vfh_cal.h"
#include "vfh_dt.h"

#if !defined REP
# define REP	R_YMD
#endif

static inline int
sgn64(i64 x)
{
	return (x > 0) - (x < 0);
}

void
h_dtcmp(void)
{
	ND_DAY2(a, va);
	ND_DAY2(b, vb);
	ND_TOD(h1, m1, s1, vt);
	ND_TOD(h2, m2, s2, vu);
	struct dt_dt_s x = mk_dt(REP, a, h1, m1, s1);
	struct dt_dt_s y = mk_dt(REP, b, h2, m2, s2);
	int c = dt_dtcmp(x, y);

	CHECK(c == sgn64(ref_delta(b.n, h2, m2, s2, a.n, h1, m1, s1)),
	      "dt_dtcmp is the order of the two instants on the timeline");
	CHECK(dt_dtcmp(y, x) == -c, "antisymmetric");
	WITNESS();
}

void
h_dt_in_range(void)
{
	ND_DAY2(a, va);
	ND_TOD(h1, m1, s1, vt);
	ND_TOD(h2, m2, s2, vu);
	ND_TOD(h3, m3, s3, vv);
	ND(i32, vk1);
	ND(i32, vk2);
	struct refday lo = a, hi = a;
	struct dt_dt_s x, l, h;
	int in;

	/* bounds up to 2 days either side, held as day numbers */
	ASSUME(vk1 >= -2 && vk1 <= 2 && vk2 >= -2 && vk2 <= 2);
	lo.n = a.n + vk1;
	hi.n = a.n + vk2;
	ASSUME(lo.n >= 1 && hi.n <= REF_MAX_DAY && lo.n <= REF_MAX_DAY && hi.n >= 1);
	x = mk_dt(R_DAISY, a, h1, m1, s1);
	l = mk_dt(R_DAISY, lo, h2, m2, s2);
	h = mk_dt(R_DAISY, hi, h3, m3, s3);
	in = dt_dt_in_range_p(x, l, h);
	CHECK(in == (ref_delta(lo.n, h2, m2, s2, a.n, h1, m1, s1) >= 0 &&
		     ref_delta(a.n, h1, m1, s1, hi.n, h3, m3, s3) >= 0),
	      "in range iff lo <= d <= hi on the timeline");
	WITNESS();
}

void
h_tcmp(void)
{
	ND_TOD(h1, m1, s1, vt);
	ND_TOD(h2, m2, s2, vu);
	ND(u32, vns1);
	ND(u32, vns2);
	struct dt_t_s t1, t2;
	i64 d;

	ASSUME(vns1 < 1000000000U && vns2 < 1000000000U);
	memset(&t1, 0, sizeof(t1));
	memset(&t2, 0, sizeof(t2));
	t1.typ = t2.typ = DT_HMS;
	t1.hms.h = h1, t1.hms.m = m1, t1.hms.s = s1, t1.hms.ns = vns1;
	t2.hms.h = h2, t2.hms.m = m2, t2.hms.s = s2, t2.hms.ns = vns2;
	d = ((i64)(h1 - h2) * 3600 + (m1 - m2) * 60 + (s1 - s2)) * 1000000000LL + ((i64)vns1 - (i64)vns2);
	CHECK(dt_tcmp(t1, t2) == sgn64(d), "dt_tcmp is the order of the two times of day");
	WITNESS();
}
