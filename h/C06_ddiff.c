/* C06 -- duration output conserves the total (refinement rule)
 * unit under test: src/ddiff.c (textually, main renamed): precalc,
 * __strf_tot_secs/_days/_mon/_corr, __strf_ym_mon, __strf_tot_years, ltostr,
 * __strfdtdur, determine_durfmt */
#include "vf.h"
#include "ref.h"
#define main	ddiff_main
#include "ddiff.c"
#undef main

#if !defined DBITS
# define DBITS	31
#endif
#if !defined VMAX
# define VMAX	100000
#endif
#if !defined FLAGS
# define FLAGS	0x1f	/* bit0 week, bit1 day, bit2 hour, bit3 min, bit4 sec */
#endif

/* (1) the unit cascade on a seconds duration: every subset of w d H M S */
void
h_precalc_secs(void)
{
	ND(i64, vdv);
	durfmt_t f = {0};
	struct dt_dtdur_s dur;
	struct precalc_s p;
	i64 a, tot, fin;
	const int hw = FLAGS & 1, hd = (FLAGS >> 1) & 1, hh = (FLAGS >> 2) & 1, hm = (FLAGS >> 3) & 1, hs = (FLAGS >> 4) & 1;

#if defined DBASE
	/* a window of 2^DBITS seconds starting at DBASE, either sign */
	ASSUME((vdv >= (i64)DBASE && vdv < (i64)DBASE + (1LL << DBITS)) ||
	       (vdv <= -(i64)DBASE && vdv > -(i64)DBASE - (1LL << DBITS)));
#else
	ASSUME(vdv > -(1LL << DBITS) && vdv < (1LL << DBITS));
#endif
	f.has_week = hw, f.has_day = hd, f.has_hour = hh, f.has_min = hm, f.has_sec = hs;
	memset(&dur, 0, sizeof(dur));
	dur.durtyp = DT_DURS;
	dur.dv = vdv;
	p = precalc(f, dur);
	a = vdv < 0 ? -vdv : vdv;
	CHECK(p.neg == (vdv < 0), "sign flag says which operand is earlier");
	CHECK(p.w >= 0 && p.d >= 0 && p.H >= 0 && p.M >= 0 && p.S >= 0, "components are magnitudes (one leading minus only)");
	/* finest requested unit */
	fin = hs ? 1 : hm ? 60 : hh ? 3600 : hd ? 86400 : hw ? 604800 : 1;
	tot = (i64)p.w * 604800 + (i64)p.d * 86400 + (i64)p.H * 3600 + (i64)p.M * 60 + (i64)p.S;
	if (FLAGS) {
		CHECK(tot == a - a % fin, "components recombine to the duration truncated to the finest requested unit");
	}
	/* every refined unit inside its natural range */
	if (hw && hd) {
		CHECK(p.d < 7, "days < 7 under weeks");
	}
	if (hh && hd) {
		CHECK(p.H < 24, "hours < 24 under days");
	} else if (hh && hw) {
		CHECK(p.H < 168, "hours < 168 under weeks");
	}
	if (hm && hh) {
		CHECK(p.M < 60, "minutes < 60 under hours");
	} else if (hm && hd) {
		CHECK(p.M < 1440, "minutes < 1440 under days");
	} else if (hm && hw) {
		CHECK(p.M < 10080, "minutes < 10080 under weeks");
	}
	if (hs && hm) {
		CHECK(p.S < 60, "seconds < 60 under minutes");
	} else if (hs && hh) {
		CHECK(p.S < 3600, "seconds < 3600 under hours");
	} else if (hs && hd) {
		CHECK(p.S < 86400, "seconds < 86400 under days");
	} else if (hs && hw) {
		CHECK(p.S < 604800, "seconds < 604800 under weeks");
	}
	WITNESS();
}

/* (1b) the totals the cascade starts from, over the whole range of the
 * calendar (two instants of 1601..4095 are up to 7.9e10 s apart) */
void
h_totals(void)
{
	ND(i64, vdv);
	ND(u8, vunit);
	struct dt_dtdur_s dur;

	ASSUME(vdv > -(1LL << 40) && vdv < (1LL << 40));
	ASSUME(vunit == DT_DURS || vunit == DT_DURM || vunit == DT_DURH);
	memset(&dur, 0, sizeof(dur));
	dur.durtyp = (dt_dtdurtyp_t)vunit;
	dur.dv = vdv;
	CHECK((i64)__strf_tot_secs(dur) == (vunit == DT_DURS ? vdv : vunit == DT_DURM ? vdv * 60 : vdv * 3600),
	      "total seconds of a duration, not truncated");
	CHECK(__strf_tot_corr(dur) == 0, "no leap correction without the tai flag");
	WITNESS();
}

/* (1c) real-seconds durations (%rS): the record carries the UTC-naive
 * seconds (soft) and the leap seconds in between (corr, same direction);
 * the plain seconds are the magnitude of soft, the real seconds the
 * magnitude of soft + corr, for either order of the operands */
void
h_precalc_tai(void)
{
	ND(i32, vsoft);
	ND(i32, vcorr);
	durfmt_t f = {0};
	struct dt_dtdur_s dur;
	struct precalc_s p;
	long int real;

	ASSUME(vsoft > -(1 << 24) && vsoft < (1 << 24));
	ASSUME(vcorr >= -3 && vcorr <= 3);
	/* leap seconds lie between the two instants: same direction, and
	 * fewer than the seconds */
	ASSUME(vcorr == 0 || ((vcorr > 0) == (vsoft > 0) && (vsoft > 3 || vsoft < -3)));
	f.has_sec = 1;
	memset(&dur, 0, sizeof(dur));
	dur.durtyp = DT_DURS;
	dur.tai = 1;
	dur.soft = vsoft;
	dur.corr = vcorr;
	p = precalc(f, dur);
	CHECK(p.neg == (vsoft < 0), "sign flag says which operand is earlier");
	CHECK(p.S == (vsoft < 0 ? -(long int)vsoft : (long int)vsoft), "%S of a real-seconds difference: the UTC-naive magnitude");
	/* what the %rS printer adds on top */
	real = p.S + __strf_abs_corr(dur, p.neg);
	CHECK(real == (vsoft + vcorr < 0 ? -(long int)(vsoft + vcorr) : (long int)(vsoft + vcorr)),
	      "%rS: the magnitude of the SI distance");
	WITNESS();
}

/* (2) years / months / days from a ymd duration, with a time part */
void
h_precalc_ymd(void)
{
	ND(u16, vy);
	ND(u8, vm);
	ND(u8, vd);
	ND(i32, vs);
	ND(u8, vneg);
	durfmt_t f = {0};
	struct dt_dtdur_s dur;
	struct precalc_s p;
	const int hy = FLAGS & 1, hq = (FLAGS >> 1) & 1, hm = (FLAGS >> 2) & 1;

	ASSUME(vy <= 2494 && vm <= 11 && vd <= 30 && vneg <= 1);
	ASSUME(vs >= 0 && vs < 86400);
	f.has_year = hy, f.has_qtr = hq, f.has_mon = hm, f.has_day = 1;
	f.has_hour = f.has_min = f.has_sec = 1;
	memset(&dur, 0, sizeof(dur));
	dur.d.durtyp = DT_DURYMD;
	dur.d.neg = vneg;
	dur.d.ymd.y = vy, dur.d.ymd.m = vm, dur.d.ymd.d = vd;
	dur.t.sdur = vs;
	p = precalc(f, dur);
	CHECK(p.neg == vneg, "sign flag");
	CHECK(p.d == vd && p.H * 3600 + p.M * 60 + p.S == vs && p.H < 24 && p.M < 60 && p.S < 60, "days and time of day");
	if (hy && (hm || hq)) {
		CHECK(p.Y == vy && p.q * 3 + p.m == vm && p.m < (hq ? 3 : 12) && p.q < 4, "years and months < 12 (quarters < 4, months < 3 under quarters)");
	} else if (hm || hq) {
		CHECK(p.q * 3 + p.m == vy * 12 + vm && (!hq || p.m < 3), "months carry the years");
	} else if (hy) {
		CHECK(p.Y == vy, "years");
	}
	WITNESS();
}

/* (3) number printing: sign, padding, digits */
void
h_ltostr(void)
{
	ND(i32, vv);
	ND(i8, vrange);
	ND(u8, vpad);
	char buf[24];
	size_t n;
	long v = 0;
	size_t i = 0;
	int neg = 0;

	ASSUME(vv > -VMAX && vv < VMAX);
	ASSUME(vrange == -1 || vrange == 2 || vrange == 3 || vrange == 9);
	ASSUME(vpad <= 3);
	n = ltostr(buf, sizeof(buf), vv, vrange, vpad);
	CHECK(n >= 1 && n < sizeof(buf), "something printed, inside the buffer");
	if (i < n && buf[i] == '-') {
		neg = 1;
		i++;
	}
	for (; i < n && (buf[i] == ' '); i++);
	CHECK(i < n, "digits follow");
	for (; i < n; i++) {
		CHECK(buf[i] >= '0' && buf[i] <= '9', "only digits after sign and padding");
		v = v * 10 + (buf[i] - '0');
	}
	CHECK((neg ? -v : v) == vv && (!neg || vv < 0), "the text denotes the value, with at most one minus sign");
	WITNESS();
}
