/* vf.h -- common harness prelude.
 * One harness source serves two purposes:
 *  - under goto-cc/CBMC (__CPROVER__ defined): ND() declares a symbolic input
 *  - under gcc/clang (replay): ND() reads the solver's value from a replay file
 */
#if !defined VF_H_
#define VF_H_
#include <stdint.h>
#include <stddef.h>
#include <stdbool.h>

typedef int32_t i32;
typedef uint32_t u32;
typedef uint8_t u8;
typedef int8_t i8;
typedef uint16_t u16;
typedef int16_t i16;
typedef int64_t i64;
typedef uint64_t u64;

#if defined VF_CBMC
i32 nondet_i32(void);
u32 nondet_u32(void);
u8 nondet_u8(void);
i8 nondet_i8(void);
u16 nondet_u16(void);
i16 nondet_i16(void);
i64 nondet_i64(void);
u64 nondet_u64(void);
# define ND(T, v)	T v = nondet_##T()
/* array of symbolic elements; constant N, unrolled by the preprocessor-free
 * loop below (the runner adds the loop bound to --unwindset via VF_ARR_MAX) */
# define ND_ARR(T, v, N)						\
	T v[N];								\
	for (unsigned int v##_i = 0; v##_i < (N); v##_i++) {		\
		T v##_e = nondet_##T();					\
		v[v##_i] = v##_e;					\
	}
# define ASSUME(c)	__CPROVER_assume(c)
# define CHECK(c, msg)	__CPROVER_assert((c), msg)
/* vacuity witness: must be reported FAILED (= reachable) */
# define WITNESS()	__CPROVER_assert(0, "VF_WITNESS")
# define VF_REPLAY	0
#else  /* replay under a real compiler */
# include <stdio.h>
# include <stdlib.h>
# include <string.h>
# define VF_REPLAY	1
extern long long vf_replay_get(const char *name, int idx);
extern int vf_failed;
extern int vf_witnessed;
# define ND(T, v)	T v = (T)vf_replay_get(#v, -1)
# define ND_ARR(T, v, N)						\
	T v[N];								\
	for (unsigned int v##_i = 0; v##_i < (N); v##_i++) {		\
		v[v##_i] = (T)vf_replay_get(#v, (int)v##_i);		\
	}
# define ASSUME(c)							\
	do {								\
		if (!(c)) {						\
			printf("REPLAY-ASSUME-FALSE %s\n", #c);	\
			exit(3);					\
		}							\
	} while (0)
# define CHECK(c, msg)							\
	do {								\
		if (!(c)) {						\
			printf("REPLAY-FAIL %s\n", msg);		\
			vf_failed = 1;					\
		}							\
	} while (0)
# define WITNESS()	(vf_witnessed = 1)
#endif	/* VF_CBMC */

#endif	/* VF_H_ */
