/* C19 -- zone maps: tzm_open + tzm_find on a compiled map
 * unit under test: lib/tzmap.c (textually): tzm_open, tzm_find, align_to
 * environment: open/fstat/mmap/munmap/close are stubs: the "file" is a heap
 * object of exactly the image's size.
 *
 * (A) well-formed maps as `tzmap cc' writes them (header, zone names, sorted
 *     records "key, padded to words" + "offset word"), keys symbolic: every
 *     key of the map is found with its own zone, every other key is absent,
 *     and all reads stay inside the image.
 * (B) a well-formed map whose header offset field is arbitrary: reads stay
 *     inside the image or the file is refused. */
#include "vf.h"
#include <sys/types.h>
#include <sys/stat.h>
#include <sys/mman.h>
#include <fcntl.h>
#include <unistd.h>
#include <stdlib.h>
#include <string.h>

/* shape of the map, from the runner: words per key of each record, e.g.
 * {1, 1, 2} = three records, the third with a key of 5..8 bytes */
#if !defined SHAPE
# define SHAPE	{1, 1}
#endif
#if !defined ZSZ
# define ZSZ	8	/* bytes of the zone name section (multiple of 4) */
#endif
#if !defined QLEN
# define QLEN	4	/* bytes of the key looked up (before its NUL) */
#endif

static const unsigned char shape[] = SHAPE;
#define NREC	(sizeof(shape))
#if !defined MAXW
# define MAXW	16	/* words of key material in the map: the sum of SHAPE */
#endif

static unsigned char *vf_img;
static size_t vf_size;

static int
vf_open(const char *path, int flags, ...)
{
	(void)path, (void)flags;
	return 3;
}

static int
vf_fstat(int fd, struct stat *st)
{
	(void)fd;
	memset(st, 0, sizeof(*st));
	st->st_size = (off_t)vf_size;
	return 0;
}

static void*
vf_mmap(void *addr, size_t len, int prot, int flags, int fd, off_t off)
{
	(void)addr, (void)len, (void)prot, (void)flags, (void)fd, (void)off;
	return vf_img;
}

static int
vf_munmap(void *addr, size_t len)
{
	(void)addr, (void)len;
	return 0;
}

static int
vf_close(int fd)
{
	(void)fd;
	return 0;
}

#define open	vf_open
#define fstat	vf_fstat
#define mmap	vf_mmap
#define munmap	vf_munmap
#define close	vf_close
#include "tzmap.c"
#undef open
#undef fstat
#undef mmap
#undef munmap
#undef close

static int
ref_strcmp(const unsigned char *a, const unsigned char *b, unsigned int n)
{
	for (unsigned int i = 0; i < n; i++) {
		if (a[i] != b[i]) {
			return (int)a[i] - (int)b[i];
		}
		if (!a[i]) {
			return 0;
		}
	}
	return 0;
}

void
h_tzm_find(void)
{
	/* key bytes of all records, MAXW words at most; per record the first
	 * byte is non-NUL, after the first NUL everything is NUL */
	ND_ARR(u8, vkey, 4 * MAXW);
	ND_ARR(u16, voff, NREC);
	ND_ARR(u8, vq, QLEN ? QLEN : 1);
#if defined BADOFF
	ND(u32, vhoff);
#endif
	unsigned char keys[NREC][4 * MAXW + 1];
	unsigned char q[QLEN + 1];
	unsigned int nwords = 0, w = 0, pos;
	tzmap_t m;
	const char *got;
	char *qs;
	int found = -1;

	for (unsigned int r = 0; r < NREC; r++) {
		nwords += shape[r] + 1U;
	}
	vf_size = 16U + ZSZ + 4U * nwords;
	vf_img = malloc(vf_size);
#if VF_REPLAY
	if (vf_img == NULL) {
		return;
	}
#else
	__CPROVER_assume(vf_img != NULL);
#endif
	memset(vf_img, 0, vf_size);
	vf_img[0] = 'T', vf_img[1] = 'Z', vf_img[2] = 'm', vf_img[3] = '1';
	vf_img[4] = 0, vf_img[5] = 0, vf_img[6] = (unsigned char)(ZSZ >> 8), vf_img[7] = (unsigned char)ZSZ;
#if defined BADOFF
	vf_img[4] = (unsigned char)(vhoff >> 24), vf_img[5] = (unsigned char)(vhoff >> 16);
	vf_img[6] = (unsigned char)(vhoff >> 8), vf_img[7] = (unsigned char)vhoff;
#endif
	/* zone names: some text, NUL terminated */
	for (unsigned int i = 0; i + 1 < ZSZ; i++) {
		vf_img[16 + i] = (unsigned char)('a' + i % 3);
	}
	/* records */
	pos = 16U + ZSZ;
	for (unsigned int r = 0; r < NREC; r++) {
		unsigned int kl = 4U * shape[r];
		int ended = 0;

		memset(keys[r], 0, sizeof(keys[r]));
		for (unsigned int i = 0; i < kl; i++) {
			unsigned char c = vkey[4 * w + i];
			/* keys are text; the last word of a key is not empty */
			ASSUME(c < 128);
			if (i == 0 || i == kl - 4) {
				ASSUME(c != 0);
			}
			if (ended) {
				ASSUME(c == 0);
			} else if (c == 0) {
				ended = 1;
			}
			keys[r][i] = c;
			vf_img[pos + i] = c;
		}
		w += shape[r];
		pos += kl;
		ASSUME(voff[r] < ZSZ);
		vf_img[pos + 0] = 0;
		vf_img[pos + 1] = (unsigned char)(voff[r] >> 8);
		vf_img[pos + 2] = (unsigned char)voff[r];
		vf_img[pos + 3] = 0;
		pos += 4U;
		/* sorted, no duplicates: as the compiler's input is required to be */
		if (r > 0) {
			ASSUME(ref_strcmp(keys[r - 1], keys[r], 4 * MAXW) < 0);
		}
	}
	/* the key to look up, in an object of exactly its size */
	for (unsigned int i = 0; i < QLEN; i++) {
		ASSUME(vq[i] != 0 && vq[i] < 128);
		q[i] = vq[i];
	}
	q[QLEN] = 0;
	qs = malloc(QLEN + 1);
#if VF_REPLAY
	if (qs == NULL) {
		return;
	}
#else
	__CPROVER_assume(qs != NULL);
#endif
	memcpy(qs, q, QLEN + 1);
	for (unsigned int r = 0; r < NREC; r++) {
		if (ref_strcmp(keys[r], q, QLEN + 1) == 0) {
			found = (int)r;
		}
	}

	m = tzm_open("map");
#if defined BADOFF
	if (m == NULL) {
		/* refused: fine */
		WITNESS();
		return;
	}
	got = tzm_find(m, qs);
	(void)got;
	CHECK(1, "reads stay inside the image (bounds checks of the solver / ASan in the replay)");
#else
	CHECK(m != NULL, "a well-formed map is accepted");
	if (m == NULL) {
		return;
	}
	got = tzm_find(m, qs);
	if (found >= 0) {
		CHECK(got == (const char*)vf_img + 16 + voff[found], "a key of the map is found with its own zone");
	} else {
		CHECK(got == NULL, "a key that is not in the map is absent");
	}
#endif
	WITNESS();
}

/* (B) an arbitrary file that carries the magic: refused, or looked up
 * without leaving the image */
#if !defined SIZE
# define SIZE	32
#endif

void
h_tzm_any(void)
{
	ND_ARR(u8, vimg, SIZE ? SIZE : 1);
	ND_ARR(u8, vq, QLEN ? QLEN : 1);
	tzmap_t m;
	const char *got;
	char *qs;

	vf_size = SIZE;
	vf_img = malloc(SIZE ? SIZE : 1);
	qs = malloc(QLEN + 1);
#if VF_REPLAY
	if (vf_img == NULL || qs == NULL) {
		return;
	}
#else
	__CPROVER_assume(vf_img != NULL && qs != NULL);
#endif
	ASSUME(SIZE < 4 || (vimg[0] == 'T' && vimg[1] == 'Z' && vimg[2] == 'm' && vimg[3] == '1'));
	for (unsigned int i = 0; i < SIZE; i++) {
		vf_img[i] = vimg[i];
	}
#if defined HOFF
	/* the header's offset field: concrete per obligation (the runner enumerates
	 * fitting, misaligned, zero and oversized values); with a symbolic one every
	 * access into the map has a symbolic base and the query does not fit */
	if (SIZE >= 8) {
		vf_img[4] = (unsigned char)((unsigned int)HOFF >> 24), vf_img[5] = (unsigned char)((unsigned int)HOFF >> 16);
		vf_img[6] = (unsigned char)((unsigned int)HOFF >> 8), vf_img[7] = (unsigned char)(unsigned int)HOFF;
	}
#endif
	for (unsigned int i = 0; i < QLEN; i++) {
		ASSUME(vq[i] != 0);
		qs[i] = (char)vq[i];
	}
	qs[QLEN] = '\0';
	m = tzm_open("map");
	if (m != NULL) {
		got = tzm_find(m, qs);
		if (got != NULL) {
			/* a zone name inside the image, terminated inside it */
			CHECK(got >= (const char*)vf_img + 16 && got < (const char*)vf_img + SIZE, "the zone name lies inside the image");
		}
	}
	WITNESS();
}
