/* C18 -- stream filters are independent of input chunking
 * unit under test: src/prchunk.c (textually, scaled through the
 * DATEUTILS_VERIF hook): prchunk_fill, prchunk_getline(no), prchunk_haslinep,
 * get_llen, lftermdp, set_loff, init_prchunk
 * environment: read() delivers the symbolic stream in arbitrary pieces (the
 * schedule is symbolic), mmap() hands out objects of exactly the requested
 * size */
#include "vf.h"
#include <stdlib.h>
#include <string.h>
#include <unistd.h>
#include <sys/mman.h>
#include <fcntl.h>

#if !defined SLEN
# define SLEN	6	/* bytes in the stream */
#endif
#if !defined NREADS
# define NREADS	10	/* read() calls the schedule may take */
#endif

static unsigned char vf_stream[SLEN ? SLEN : 1];
static unsigned int vf_pos;
static unsigned char vf_sched[NREADS];
static unsigned int vf_nrd;
static int vf_overread;

static ssize_t
vf_read(int fd, void *buf, size_t count)
{
	size_t rem = SLEN - vf_pos;
	size_t n;

	(void)fd;
	if (rem == 0) {
		return 0;
	}
	/* any count between 1 and min(count, remaining) */
	n = vf_nrd < NREADS ? vf_sched[vf_nrd] : 255;
	vf_nrd++;
	if (n < 1) {
		n = 1;
	}
	if (n > count) {
		n = count;
	}
	if (n > rem) {
		n = rem;
	}
	memcpy(buf, vf_stream + vf_pos, n);
	vf_pos += n;
	return (ssize_t)n;
}

static void*
vf_mmap(void *addr, size_t len, int prot, int flags, int fd, off_t off)
{
	void *p = malloc(len);
	(void)addr, (void)prot, (void)flags, (void)fd, (void)off;
#if !VF_REPLAY
	__CPROVER_assume(p != NULL);
#endif
	return p;
}

static int
vf_munmap(void *addr, size_t len)
{
	(void)len;
	free(addr);
	return 0;
}

static int
vf_fadvise(int fd, off_t a, off_t b, int c)
{
	(void)fd, (void)a, (void)b, (void)c;
	return 0;
}

#if defined VF_CBMC
/* cbmc 6.11 ships no model of memchr */
static void*
vf_memchr(const void *s, int c, size_t n)
{
	const unsigned char *p = s;
	for (size_t i = 0; i < n; i++) {
		if (p[i] == (unsigned char)c) {
			return (void*)(p + i);
		}
	}
	return NULL;
}
# define memchr	vf_memchr
#endif
#define read	vf_read
#define mmap	vf_mmap
#define munmap	vf_munmap
#define posix_fadvise	vf_fadvise
#include "prchunk.c"
#undef read
#undef mmap
#undef munmap
#undef posix_fadvise
#if defined VF_CBMC
# undef memchr
#endif

/* what the consumer loop of dconv/dadd/dround sees */
#define MAXOUT	(SLEN + 2)
static unsigned char out_line[MAXOUT][SLEN + 1];
static unsigned int out_len[MAXOUT];
static unsigned int nout;

void
h_chunking(void)
{
	ND_ARR(u8, vs, SLEN ? SLEN : 1);
	ND_ARR(u8, vsch, NREADS);
	prch_ctx_t ctx;
	unsigned int guard = 0;
	unsigned int nexp = 0, start = 0;
	int same = 1;

	for (unsigned int i = 0; i < SLEN; i++) {
		/* a small alphabet keeps the query small: newline, CR, a letter */
		ASSUME(vs[i] == '\n' || vs[i] == '\r' || vs[i] == 'a' || vs[i] == 'b');
		vf_stream[i] = vs[i];
	}
	for (unsigned int i = 0; i < NREADS; i++) {
		vf_sched[i] = vsch[i];
	}
#if defined KF_ONLY_prchunk_window_full
	/* some line (with its newline) does not fit the window */
	ASSUME(SLEN > VERIF_MAX_NLINES * VERIF_MAX_LLEN);
#endif
	ctx = init_prchunk(0);
	CHECK(ctx != NULL, "reader initialised");
	while (guard++ < SLEN + 3 && prchunk_fill(ctx) >= 0) {
		while (prchunk_haslinep(ctx) && nout < MAXOUT) {
			char *line;
			size_t llen = prchunk_getline(ctx, &line);
			CHECK(line != NULL && llen <= SLEN, "a line inside the window");
			if (line != NULL && llen <= SLEN) {
				for (unsigned int k = 0; k < SLEN; k++) {
					if (k < llen) {
						out_line[nout][k] = (unsigned char)line[k];
					}
				}
				out_len[nout] = (unsigned int)llen;
				nout++;
			}
		}
	}
	/* reference split: maximal newline-free segments, a CR before the
	 * newline belongs to the line ending; a last segment without newline
	 * is a line too if it is not empty */
	for (unsigned int i = 0; i <= SLEN; i++) {
		if (i == SLEN ? start < SLEN : vf_stream[i] == '\n') {
			unsigned int end = i;
			unsigned int len;
			if (i < SLEN && end > start && vf_stream[end - 1] == '\r') {
				end--;
			}
			len = end - start;
			if (nexp < nout) {
				same &= out_len[nexp] == len;
				for (unsigned int k = 0; k < SLEN; k++) {
					if (k < len && out_len[nexp] == len) {
						same &= out_line[nexp][k] == vf_stream[start + k];
					}
				}
			}
			nexp++;
			start = i + 1;
		}
	}
#if VF_REPLAY
	printf("delivered %u lines, expected %u\n", nout, nexp);
	for (unsigned int i = 0; i < nout; i++) {
		printf("  line %u: len %u\n", i, out_len[i]);
	}
#endif
	CHECK(nout == nexp, "no line lost, duplicated, split or merged");
	CHECK(same, "every line delivered byte for byte, whatever the read sizes");
	WITNESS();
}
