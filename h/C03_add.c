/* C03 -- adding days / weeks is exact in every calendar
 * C04 -- month / year arithmetic keeps the day and clamps to ultimo
 * unit under test: lib/date-core.c (dt_dadd_d/_w/_m/_y, dt_dadd, dt_dfixup and
 * the per-calendar add/fixup kernels) */
#include "vf.h"
#include "ref.h"
#include "date-core.c"
#include "vfh_cal.h"

#if !defined REP
# define REP	R_YMD
#endif
#if !defined NMAX
# define NMAX	400
#endif

/* day numbers a result may take */
#define IN_RANGE(n)	((n) >= 1 && (n) <= REF_MAX_DAY)

void
h_add_d(void)
{
	ND_DAY(r);
	ND(i32, vn);
	ASSUME(vn >= -NMAX && vn <= NMAX);
	ASSUME(IN_RANGE(r.n + vn));
#if defined KF_EXCL_daisy_tail || defined KF_ONLY_daisy_tail
	KF_DAISY_TAIL(r.n + vn);
#endif
	struct dt_d_s x = mk_rep(REP, r);
	struct dt_d_s y = dt_dadd_d(x, vn);

	CHECK(y.typ == x.typ, "calendar kept");
	CHECK(rep_days(y) == r.n + vn, "date + n days is the day n days later");
	WITNESS();
}

void
h_add_w(void)
{
	ND_DAY(r);
	ND(i32, vn);
	ASSUME(vn >= -NMAX && vn <= NMAX);
	ASSUME(IN_RANGE(r.n + 7 * vn));
	struct dt_d_s x = mk_rep(REP, r);
	struct dt_d_s y = dt_dadd_w(x, vn);

	CHECK(y.typ == x.typ, "calendar kept");
	CHECK(rep_days(y) == r.n + 7 * vn, "date + n weeks is the day 7n days later");
	WITNESS();
}

/* through the duration interface the tools use */
void
h_add_dur(void)
{
	ND_DAY(r);
	ND(i32, vn);
	ASSUME(vn >= -NMAX && vn <= NMAX);
	ASSUME(IN_RANGE(r.n + vn));
	struct dt_d_s x = mk_rep(REP, r);
	struct dt_ddur_s dur = dt_make_ddur(DT_DURD, vn);
	struct dt_d_s y = dt_dadd(x, dur);
	struct dt_d_s z = dt_dadd(y, dt_neg_dur(dur));

	CHECK(rep_days(y) == r.n + vn, "dt_dadd with a day duration");
	CHECK(z.typ == x.typ && z.u == x.u, "adding n and then -n returns the original date");
	WITNESS();
}

/* ---- C04 ---- */
#if !defined MMAX
# define MMAX	48
#endif

void
h_add_m_ymd(void)
{
	ND_DAY(r);
	ND(i32, vn);
	ND(i32, va);
	int ey, em, ed;
	struct dt_d_s x = mk_rep(R_YMD, r);
	struct dt_d_s y, f;

	ASSUME(vn >= -MMAX && vn <= MMAX);
	ref_add_months(r.y, r.m, r.d, vn, &ey, &em, &ed);
	ASSUME(ey >= REF_MIN_YEAR && ey <= REF_MAX_YEAR);
	y = dt_dadd_m(x, vn);
	f = dt_dfixup(y);
	CHECK(f.typ == DT_YMD && (int)f.ymd.y == ey && (int)f.ymd.m == em && (int)f.ymd.d == ed,
	      "date + n months: month moved by n, day kept or clamped to the month's last day");
	/* the unfixed value keeps the day (lazy ultimo) so that steps compose */
	CHECK((int)y.ymd.d == r.d, "day of month kept lazily");
	/* composition: +a then +(n-a) equals +n */
	ASSUME(va >= -MMAX && va <= MMAX && vn - va >= -MMAX && vn - va <= MMAX);
	{
		int ty, tm, td;
		struct dt_d_s z;
		ref_add_months(r.y, r.m, r.d, va, &ty, &tm, &td);
		ASSUME(ty >= REF_MIN_YEAR && ty <= REF_MAX_YEAR);
		z = dt_dfixup(dt_dadd_m(dt_dadd_m(x, va), vn - va));
		CHECK(z.u == f.u, "month steps compose: +a then +b equals +(a+b)");
	}
	WITNESS();
}

void
h_add_y_ymd(void)
{
	ND_DAY(r);
	ND(i32, vn);
	struct dt_d_s x = mk_rep(R_YMD, r);
	struct dt_d_s f;
	int ey = r.y + vn;
	int ml;

	ASSUME(ey >= REF_MIN_YEAR && ey <= REF_MAX_YEAR);
	f = dt_dfixup(dt_dadd_y(x, vn));
	ml = ref_mdays(ey, r.m);
	CHECK((int)f.ymd.y == ey && (int)f.ymd.m == r.m && (int)f.ymd.d == (r.d > ml ? ml : r.d),
	      "date + n years: year moved by n, Feb 29 clamped to Feb 28");
	{
		/* quarters and years through dt_dadd */
		struct dt_d_s g = dt_dfixup(dt_dadd(x, dt_make_ddur(DT_DURYR, vn)));
		CHECK(g.u == f.u, "dt_dadd with a year duration");
	}
	WITNESS();
}

void
h_add_q_ymd(void)
{
	ND_DAY(r);
	ND(i32, vn);
	int ey, em, ed;
	struct dt_d_s x = mk_rep(R_YMD, r);
	struct dt_d_s f;

	ASSUME(vn >= -MMAX / 3 && vn <= MMAX / 3);
	ref_add_months(r.y, r.m, r.d, 3 * vn, &ey, &em, &ed);
	ASSUME(ey >= REF_MIN_YEAR && ey <= REF_MAX_YEAR);
	f = dt_dfixup(dt_dadd(x, dt_make_ddur(DT_DURQU, vn)));
	CHECK((int)f.ymd.y == ey && (int)f.ymd.m == em && (int)f.ymd.d == ed, "date + n quarters = + 3n months");
	f = dt_dfixup(dt_dadd(x, dt_make_ddur(DT_DURMO, 3 * vn)));
	CHECK((int)f.ymd.y == ey && (int)f.ymd.m == em && (int)f.ymd.d == ed, "dt_dadd with a month duration");
	WITNESS();
}

/* ymcw: count and weekday kept, count clamped to the last such weekday */
void
h_add_m_ymcw(void)
{
	ND_DAY(r);
	ND(i32, vn);
	ND(i32, vyr);
	int ey, em, ed;
	struct dt_d_s x = mk_rep(R_YMCW, r);
	struct dt_d_s f;
	int c = ref_mcount(r.d);
	int first, last, cnt;

	ASSUME(vn >= -MMAX && vn <= MMAX);
	ASSUME(vyr == 0 || vyr == 1);
	ref_add_months(r.y, r.m, 1, vyr ? 12 * vn : vn, &ey, &em, &ed);
	ASSUME(ey >= REF_MIN_YEAR && ey <= REF_MAX_YEAR);
	f = dt_dfixup(vyr ? dt_dadd_y(x, vn) : dt_dadd_m(x, vn));
	/* number of weekdays r.wd in the target month */
	first = ref_wday(ref_days(ey, em, 1));
	last = 1 + (r.wd - first + 7) % 7;
	cnt = (ref_mdays(ey, em) - last) / 7 + 1;
	CHECK(f.typ == DT_YMCW && (int)f.ymcw.y == ey && (int)f.ymcw.m == em && (int)f.ymcw.w == r.wd,
	      "ymcw + n months/years: month moved, weekday kept");
	CHECK((int)f.ymcw.c == (c > cnt ? cnt : c), "count kept, clamped to the last such weekday of the month");
	CHECK(rep_days(f) > 0, "result is a valid date");
	/* composition: +a then +(n-a) in one invocation equals +n (a 5th
	 * weekday that an intermediate month lacks must not be lost) */
	{
		ND(i32, va);
		int ty, tm, td;
		struct dt_d_s z;

		ASSUME(va >= -MMAX && va <= MMAX && vn - va >= -MMAX && vn - va <= MMAX);
		ref_add_months(r.y, r.m, 1, vyr ? 12 * va : va, &ty, &tm, &td);
		ASSUME(ty >= REF_MIN_YEAR && ty <= REF_MAX_YEAR);
		z = vyr ? dt_dadd_y(dt_dadd_y(x, va), vn - va) : dt_dadd_m(dt_dadd_m(x, va), vn - va);
		z = dt_dfixup(z);
		CHECK(z.u == f.u, "month/year steps on a count-weekday date compose: +a then +b equals +(a+b)");
	}
	WITNESS();
}

/* ywd + n years: week and weekday kept, week clamped to the year's last week,
 * hang recomputed */
void
h_add_y_ywd(void)
{
	ND_DAY(r);
	ND(i32, vn);
	struct dt_d_s x = mk_rep(R_YWD, r);
	struct dt_d_s f;
	int ey = r.iy + vn;
	int nw;

	ASSUME(ey >= REF_MIN_YEAR && ey <= REF_MAX_YEAR);
	f = dt_dfixup(dt_dadd_y(x, vn));
	nw = ref_isoweeks(ey);
	CHECK(f.typ == DT_YWD && (int)f.ywd.y == ey && (int)f.ywd.w == r.wd, "ywd + n years: year moved, weekday kept");
	CHECK((int)f.ywd.c == (r.iw > nw ? nw : r.iw), "week kept, clamped to the last ISO week of the year");
	CHECK((int)f.ywd.hang == ref_hang(ey), "hang is the target year's");
	CHECK(rep_days(f) > 0, "result is a valid date");
	WITNESS();
}

/* yd + n years: day of year kept, clamped to 365/366 */
void
h_add_y_yd(void)
{
	ND_DAY(r);
	ND(i32, vn);
	struct dt_d_s x = mk_rep(R_YD, r);
	struct dt_d_s f;
	int ey = r.y + vn;

	ASSUME(ey >= REF_MIN_YEAR && ey <= REF_MAX_YEAR);
	f = dt_dfixup(dt_dadd_y(x, vn));
	CHECK(f.typ == DT_YD && (int)f.yd.y == ey &&
	      (int)f.yd.d == (r.doy > ref_ydays(ey) ? ref_ydays(ey) : r.doy),
	      "yd + n years: day of year kept, 366 clamped to 365");
	WITNESS();
}
