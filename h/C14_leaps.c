/* C14 -- leap-second aware results follow the leap-second table
 * units under test: lib/leaps.c (bisection), lib/tzraw.c (__tai_offs,
 * __gps_offs, __offs, zif_open for the virtual zones), the generated
 * lib/leap-seconds.def, lib/dt-core.c (dt_dtadd with real seconds) */
#include "vf.h"
#include "ref.h"
#if defined WITH_DTCORE
# include "leap-seconds.def"
# include "dt-core.c"
# include "vfh_cal.h"
# include "vfh_dt.h"
#else
# include "tzraw.c"
#endif
#if defined VF_EXPECT
# include "leaps_expected.h"
#endif

#define NL	(sizeof(leaps_corr) / sizeof(*leaps_corr))

#if !defined WITH_DTCORE
/* (1) the parallel arrays describe the same instants and equal the list */
void
h_table(void)
{
	CHECK(nleaps == NL && nleaps_s == NL && nleaps_d == NL && nleaps_ymd == NL && nleaps_hms == NL,
	      "parallel arrays have the same length");
	CHECK(leaps_s[0] == INT32_MIN && leaps_s[NL - 1] == INT32_MAX, "sentinels");
	CHECK(leaps_corr[0] == leaps_corr[1] && leaps_corr[NL - 1] == leaps_corr[NL - 2], "sentinel corrections");
	for (unsigned int i = 1; i + 1 < NL; i++) {
		unsigned int ymd = leaps_ymd[i];
		int y = ymd >> 10, m = (ymd >> 6) & 0xf, d = ymd & 0x3f;
		int n = ref_days(y, m, d);
		CHECK(ref_valid_ymd(y, m, d), "table date valid");
		CHECK((int)leaps_d[i] == n, "day number column == date column");
		CHECK((i64)leaps_s[i] == ((i64)n - REF_UNIX_BASE) * 86400 + 86399, "epoch column: 23:59:59 of that day");
		CHECK(leaps_hms[i] == ((23U << 16) | (59U << 8) | 60U), "time column: 23:59:60");
		CHECK(i < 2 || leaps_corr[i] == leaps_corr[i - 1] + 1, "TAI-UTC steps by exactly one second");
		CHECK(leaps_s[i] > leaps_s[i - 1], "instants strictly increasing");
#if defined VF_EXPECT
		/* against lib/leap-seconds.list as parsed by the runner */
		CHECK(i - 1 < VF_NEXPECT && (i64)leaps_s[i] + 1 == vf_expect_epoch[i - 1] &&
		      leaps_corr[i] == vf_expect_corr[i - 1], "table == leap-seconds.list");
#endif
	}
#if defined VF_EXPECT
	CHECK(NL - 2 == VF_NEXPECT, "every list entry is in the table");
#endif
	WITNESS();
}

/* reference: index of the last entry strictly below KEY (0 if none) */
static unsigned int
ref_before_s(i64 key)
{
	unsigned int r = 0;
	for (unsigned int i = 0; i < NL; i++) {
		if ((i64)leaps_s[i] < key) {
			r = i;
		}
	}
	return r;
}

/* (2) the bisection, every 32-bit key */
void
h_bisect_s(void)
{
	ND(i32, vkey);
	zidx_t i = leaps_before_si32(leaps_s, nleaps, vkey);
	CHECK(i < NL, "index inside the table");
	CHECK(i == ref_before_s(vkey), "index of the last entry strictly before the key");
	WITNESS();
}

void
h_bisect_d(void)
{
	ND(u32, vkey);
	zidx_t i = leaps_before_ui32(leaps_d, nleaps, vkey);
	unsigned int r = 0;
	/* the day-number column ends with its own sentinel */
	for (unsigned int k = 0; k < NL; k++) {
		if (leaps_d[k] < vkey) {
			r = k;
		}
	}
	CHECK(i < NL, "index inside the table");
	CHECK(i == r || (vkey > leaps_d[NL - 1] && i + 1 >= NL - 1), "index of the last entry strictly before the key");
	i = leaps_before_ui32(leaps_ymd, nleaps, vkey);
	r = 0;
	for (unsigned int k = 0; k < NL; k++) {
		if (leaps_ymd[k] < vkey) {
			r = k;
		}
	}
	CHECK(i < NL, "index inside the table (ymd column)");
	CHECK(i == r || (vkey > leaps_ymd[NL - 1] && i + 1 >= NL - 1), "ymd column: last entry strictly before the key");
	WITNESS();
}

/* (3) TAI-UTC / GPS-UTC for any instant, however far in the future */
void
h_tai_offs(void)
{
	ND(i64, vt);
	stamp_t o, g;
	zif_t z;

	ASSUME(vt >= -2208988800LL && vt <= (1LL << 40));
#if defined KF_ONLY_tai_y2038
	ASSUME(vt > INT32_MAX);
#elif defined KF_EXCL_tai_y2038
	ASSUME(vt <= INT32_MAX);
#endif
	o = __tai_offs(vt);
	CHECK(o == leaps_corr[ref_before_s(vt)], "TAI-UTC == table value in force at the instant");
	g = __gps_offs(vt);
	CHECK(g == (vt < 315964800 ? 0 : leaps_corr[ref_before_s(vt)] - 19), "GPS-UTC == TAI-UTC - 19 since 1980-01-06");
	z = zif_open("TAI");
	CHECK(z != NULL && zif_local_time(z, vt) == vt + leaps_corr[ref_before_s(vt)], "zone TAI applies that offset");
	z = zif_open("GPS");
	CHECK(z != NULL && zif_local_time(z, vt) == vt + g, "zone GPS applies that offset");
	z = zif_open("UTC");
	CHECK(z != NULL && zif_local_time(z, vt) == vt, "zone UTC applies none");
	WITNESS();
}

/* monotone: never decreases */
void
h_tai_monotone(void)
{
	ND(i64, vt);
	ND(i64, vu);
	ASSUME(vt >= -2208988800LL && vt <= vu && vu <= (1LL << 40));
#if defined KF_ONLY_tai_y2038
	ASSUME(vu > INT32_MAX);
#elif defined KF_EXCL_tai_y2038
	ASSUME(vu <= INT32_MAX);
#endif
	CHECK(__tai_offs(vt) <= __tai_offs(vu), "TAI-UTC never decreases");
	WITNESS();
}
#endif	/* !WITH_DTCORE */

#if defined WITH_DTCORE
/* leap seconds inserted at the end of days before day N */
static int
ref_L(int n)
{
	int r = 0;
	for (unsigned int i = 2; i + 1 < NL; i++) {
		if ((int)leaps_d[i] < n) {
			r++;
		}
	}
	return r;
}

static int
ref_leapday_p(int n)
{
	int r = 0;
	for (unsigned int i = 2; i + 1 < NL; i++) {
		if ((int)leaps_d[i] == n) {
			r = 1;
		}
	}
	return r;
}

/* TAI-like second count of a civil date-time, relative to day 0 */
static i64
ref_T(int n, int h, int m, int s)
{
	return (i64)n * 86400 + h * 3600 + m * 60 + s + ref_L(n);
}

#if !defined REP
# define REP	R_YMD
#endif
/* (5) adding N real seconds moves the date-time by exactly N SI seconds */
void
h_dtadd_rs(void)
{
#if defined IDX
	const unsigned int vidx = IDX;
#else
	ND(u8, vidx);
#endif
	ND(i32, voff);
	ND(i32, vn);
	struct refday r;
	struct dt_dt_s x, y;
	struct dt_dtdur_s dur;
	int n0, sod, h, m, s, yn;

	/* start within 3 s either side of the end of a listed day; entry 1
	 * (1971-12-31) is listed but inserts nothing: TAI-UTC does not step there */
	ASSUME(vidx >= 1 && vidx + 1 < NL);
	ASSUME(voff >= -3 && voff <= 3);
	ASSUME(vn >= -5 && vn <= 5);
	n0 = (int)leaps_d[vidx];
	/* 23:59:60 exists on days that end with an inserted second only */
	ASSUME(voff != 0 || vidx >= 2);
	if (voff <= 0) {
		/* 23:59:57 .. 23:59:60 on the leap day */
		h = 23, m = 59, s = 60 + voff;
	} else {
		/* 00:00:00 .. 00:00:02 on the next day */
		n0++;
		h = 0, m = 0, s = voff - 1;
	}
	memset(&r, 0, sizeof(r));
	r.n = n0;
	/* the civil fields of that day, by the reference */
	{
		ND(i32, vy);
		ND(i32, vm);
		ND(i32, vd);
		ASSUME(ref_is_ymd(n0, vy, vm, vd));
		r.y = vy, r.m = vm, r.d = vd;
	}
	x = mk_dt(REP, r, h, m, s);
	memset(&dur, 0, sizeof(dur));
	dur.durtyp = DT_DURS;
	dur.tai = 1;
	dur.dv = vn;
	y = dt_dtadd(x, dur);
	yn = rep_days(y.d);
	CHECK(yn > 0, "result date valid");
	CHECK(y.t.hms.h <= 23 && y.t.hms.m <= 59 &&
	      (y.t.hms.s <= 59 || (y.t.hms.s == 60 && y.t.hms.h == 23 && y.t.hms.m == 59 && ref_leapday_p(yn))),
	      "23:59:60 appears exactly on inserted seconds");
	CHECK(ref_T(yn, y.t.hms.h, y.t.hms.m, y.t.hms.s) - ref_T(n0, h, m, s) == vn,
	      "date-time moved by exactly N SI seconds");
	(void)sod;
	WITNESS();
}

/* (6) the difference of two instants in real seconds: the record handed to
 * ddiff carries the UTC-naive seconds (soft) and the leap seconds in between
 * (corr), their sum is the SI distance, in either order of the operands */
void
h_dtdiff_rs(void)
{
	ND(u8, vidx);
	ND(i32, voff);
	ND(i32, voff2);
	ND(u8, vswap);
	struct refday r1, r2;
	struct dt_dt_s x, y;
	struct dt_dtdur_s d;
	int n0, n1, n2, h1, m1, s1, h2, m2, s2;

	ASSUME(vidx >= 1 && vidx + 1 < NL);
	/* both instants within 20 s of the end of the listed day, not on the
	 * inserted second itself */
	ASSUME(voff >= -20 && voff <= 20 && voff != 0);
	ASSUME(voff2 >= -20 && voff2 <= 20 && voff2 != 0);
	ASSUME(vswap <= 1);
	n0 = (int)leaps_d[vidx];
	n1 = voff < 0 ? n0 : n0 + 1;
	h1 = voff < 0 ? 23 : 0, m1 = voff < 0 ? 59 : 0, s1 = voff < 0 ? 60 + voff : voff - 1;
	if (s1 < 0) {
		s1 += 60, m1 = 58;
	}
	n2 = voff2 < 0 ? n0 : n0 + 1;
	h2 = voff2 < 0 ? 23 : 0, m2 = voff2 < 0 ? 59 : 0, s2 = voff2 < 0 ? 60 + voff2 : voff2 - 1;
	if (s2 < 0) {
		s2 += 60, m2 = 58;
	}
	memset(&r1, 0, sizeof(r1));
	memset(&r2, 0, sizeof(r2));
	r1.n = n1, r2.n = n2;
	{
		ND(i32, vy);
		ND(i32, vm);
		ND(i32, vd);
		ND(i32, vy2);
		ND(i32, vm2);
		ND(i32, vd2);
		ASSUME(ref_is_ymd(n1, vy, vm, vd));
		ASSUME(ref_is_ymd(n2, vy2, vm2, vd2));
		r1.y = vy, r1.m = vm, r1.d = vd;
		r2.y = vy2, r2.m = vm2, r2.d = vd2;
	}
	x = mk_dt(REP, r1, h1, m1, s1);
	y = mk_dt(REP, r2, h2, m2, s2);
	(void)vswap;
	d = dt_dtdiff((dt_dtdurtyp_t)0xffU, x, y);
	CHECK(d.durtyp == DT_DURS && d.tai, "a real-seconds duration");
	CHECK((i64)d.soft + (i64)d.corr == ref_T(n2, h2, m2, s2) - ref_T(n1, h1, m1, s1),
	      "UTC-naive seconds plus leap seconds in between is the SI distance, in either order");
	CHECK((i64)d.soft == ref_T(n2, h2, m2, s2) - ref_T(n1, h1, m1, s1) - (i64)d.corr &&
	      d.corr >= -1 && d.corr <= 1, "at most the one leap second of this entry in between");
	WITNESS();
}
#endif	/* WITH_DTCORE */
