/* C02(1) -- conversions round-trip (no oracle needed for the conversions
 * themselves; the source value is built from the reference day) */
#include "vf.h"
#include "ref.h"
#include "date-core.c"
#include "vfh_cal.h"

#if !defined SRC
# define SRC	R_YMD
#endif
#if !defined TGT
# define TGT	R_YWD
#endif

void
h_roundtrip(void)
{
	ND_DAY(r);
	struct dt_d_s s = mk_rep(SRC, r);
	struct dt_d_s t = dt_dconv((dt_dtyp_t)TGT, s);
	struct dt_d_s b = dt_dconv((dt_dtyp_t)s.typ, t);

	CHECK(b.typ == s.typ && b.u == s.u, "converting there and back returns the original date");
	WITNESS();
}
