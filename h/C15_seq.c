/* C15 -- dateseq emits exactly the arithmetic progression between its bounds
 * unit under test: src/dseq.c (textually, main renamed): __get_dir,
 * __seq_this, __seq_next, __in_range_p, __fixup_fst, skipp, date_add,
 * date_neg_dur, __durstack_naught_p; called in the order main() calls them
 * from the naught test on (the option parser and the text parsers are not
 * driven: FIRST, LAST and the increment are handed over as values, in the
 * representation main() has at that point).
 *
 * assume-guarantee: inside dseq.c the library's dt_dtadd(), dt_dtcmp(),
 * dt_get_wday() and dt_dt_in_range_p() are replaced by their contracts vf_dtadd(), vf_dtcmp()
 * and vf_in_range() (so that a dozen iterations stay solvable); the
 * obligations h_contract and h_contract_cmp prove the real functions equal to
 * the contracts on the domain the sequences use, and the stubs record whether
 * they were ever called outside that domain */
#include "vf.h"
#include "ref.h"
#include "dt-core.h"

#if !defined KMAX
# define KMAX	6	/* at most KMAX + 1 members between the bounds */
#endif
#if !defined NMAX
# define NMAX	3	/* |INC| */
#endif
#if !defined YLO
# define YLO	1601
#endif
#if !defined YHI
# define YHI	4095
#endif
/* the domain of the contract */
#define C_DLO	500
#define C_DHI	905000
#define C_NMAX	64

static int vf_contract_domain = 1;

static int
vf_secs(struct dt_t_s t)
{
	return ((int)t.hms.h * 60 + (int)t.hms.m) * 60 + (int)t.hms.s;
}

/* what dt_dtadd() does for date-only day numbers and ymd dates and for
 * time-only values, written from its documentation (dates: add days, or
 * months/years keeping the day of the month, which dt_fixup() crops later;
 * times: add modulo 24 hours and report the day carry in t.carry; a unit
 * that does not apply leaves the value alone) */
static struct dt_dt_s
vf_dtadd(struct dt_dt_s d, struct dt_dtdur_s dur)
{
	/* time units hold their count in the 48-bit .dv, date units in .d.dv */
	int n = dur.durtyp == DT_DURH || dur.durtyp == DT_DURM || dur.durtyp == DT_DURS ? (int)dur.dv : (int)dur.d.dv;

	if (dt_sandwich_only_d_p(d) && d.d.typ == DT_DAISY) {
		vf_contract_domain &= (int)d.d.daisy >= C_DLO && (int)d.d.daisy <= C_DHI && n >= -C_NMAX && n <= C_NMAX;
		if (dur.durtyp == DT_DURD) {
			d.d.daisy += n;
		} else if (dur.durtyp == DT_DURWK) {
			d.d.daisy += 7 * n;
		}
	} else if (dt_sandwich_only_d_p(d) && d.d.typ == DT_YMD) {
		vf_contract_domain &= (int)d.d.ymd.y > REF_MIN_YEAR && (int)d.d.ymd.y < REF_MAX_YEAR &&
			d.d.ymd.m >= 1 && d.d.ymd.m <= 12 && d.d.ymd.d >= 1 && d.d.ymd.d <= 31 && n >= -C_NMAX && n <= C_NMAX;
		if (dur.durtyp == DT_DURMO || dur.durtyp == DT_DURYR) {
			int t = (int)d.d.ymd.y * 12 + ((int)d.d.ymd.m - 1) + (dur.durtyp == DT_DURYR ? 12 * n : n);
			d.d.ymd.y = t / 12;
			d.d.ymd.m = t % 12 + 1;
		}
	} else if (dt_sandwich_only_t_p(d)) {
		vf_contract_domain &= d.t.typ == DT_HMS && d.t.hms.h < 24 && d.t.hms.m < 60 && d.t.hms.s < 60 &&
			d.t.hms.ns == 0 && n >= -C_NMAX && n <= C_NMAX;
		switch (dur.durtyp) {
		case DT_DURH:
		case DT_DURM:
		case DT_DURS:
			break;
		default:
			return d;
		}
		{
			/* carry by cascade, a solver chokes on the division form */
			int h = (int)d.t.hms.h, m = (int)d.t.hms.m, sec = (int)d.t.hms.s;
			int c = 0;

			/* no division: counts of less than a day / an hour / a minute */
			vf_contract_domain &= dur.durtyp == DT_DURH ? (n > -24 && n < 24) : (n > -60 && n < 60);
			if (dur.durtyp == DT_DURH) {
				h += n;
			} else if (dur.durtyp == DT_DURM) {
				m += n;
			} else {
				sec += n;
			}
			if (sec < 0) {
				sec += 60, m--;
			} else if (sec >= 60) {
				sec -= 60, m++;
			}
			if (m < 0) {
				m += 60, h--;
			} else if (m >= 60) {
				m -= 60, h++;
			}
			if (h < 0) {
				h += 24, c = -1;
			} else if (h >= 24) {
				h -= 24, c = 1;
			}
			d.t.hms.h = h;
			d.t.hms.m = m;
			d.t.hms.s = sec;
			d.t.carry = c;
		}
	} else {
		vf_contract_domain = 0;
	}
	return d;
}

/* the order of two values of one kind: day numbers by number, ymd dates by
 * (year, month, day) -- also for days beyond the month's end, which the
 * sequence holds until dt_fixup() crops them */
static int
vf_dtcmp(struct dt_dt_s a, struct dt_dt_s b)
{
	if (dt_sandwich_only_d_p(a) && dt_sandwich_only_d_p(b) && a.d.typ == DT_DAISY && b.d.typ == DT_DAISY) {
		vf_contract_domain &= (int)a.d.daisy >= C_DLO && (int)a.d.daisy <= C_DHI &&
			(int)b.d.daisy >= C_DLO && (int)b.d.daisy <= C_DHI;
		return a.d.daisy < b.d.daisy ? -1 : a.d.daisy > b.d.daisy;
	} else if (dt_sandwich_only_d_p(a) && dt_sandwich_only_d_p(b) && a.d.typ == DT_YMD && b.d.typ == DT_YMD) {
		int ka = ((int)a.d.ymd.y * 12 + (int)a.d.ymd.m) * 32 + (int)a.d.ymd.d;
		int kb = ((int)b.d.ymd.y * 12 + (int)b.d.ymd.m) * 32 + (int)b.d.ymd.d;
		vf_contract_domain &= a.d.ymd.m >= 1 && a.d.ymd.m <= 12 && a.d.ymd.d >= 1 && a.d.ymd.d <= 31 &&
			b.d.ymd.m >= 1 && b.d.ymd.m <= 12 && b.d.ymd.d >= 1 && b.d.ymd.d <= 31 &&
			(int)a.d.ymd.y > REF_MIN_YEAR && (int)a.d.ymd.y < REF_MAX_YEAR &&
			(int)b.d.ymd.y > REF_MIN_YEAR && (int)b.d.ymd.y < REF_MAX_YEAR;
		return ka < kb ? -1 : ka > kb;
	}
	vf_contract_domain = 0;
	return -2;
}

/* weekday of a day number (skipp() asks for nothing else here).  For the
 * solver the weekday is an ARBITRARY function of the day number, given by
 * a symbolic table around the state: the steps of the run are proved for
 * every such function, the calendar's in particular (that the real
 * dt_get_wday() depends on the day number only is the contract checked in
 * contract:order:daisy); this spares some twenty 32-bit dividers per query,
 * which the SAT back end did not get through.  The replay uses the real
 * weekday. */
#define WN	2048
static const unsigned char *vf_wd;
static int vf_wd_base;

static int
vf_wday_of(int day)
{
#if VF_REPLAY
	return ref_wday(day);
#else
	int i = day - vf_wd_base;

	vf_contract_domain &= vf_wd != NULL && i >= 0 && i < WN;
	return 1 + vf_wd[i >= 0 && i < WN ? i : 0] % 7;
#endif
}

static dt_dow_t
vf_get_wday(struct dt_d_s d)
{
	vf_contract_domain &= d.typ == DT_DAISY && (int)d.daisy >= C_DLO && (int)d.daisy <= C_DHI;
	return (dt_dow_t)vf_wday_of((int)d.daisy);
}

/* 1 iff D1 <= D <= D2 (dseq tests for 1 only) */
static int
vf_in_range(struct dt_dt_s d, struct dt_dt_s d1, struct dt_dt_s d2)
{
	return vf_dtcmp(d, d1) >= 0 && vf_dtcmp(d, d2) <= 0;
}

#if defined PART_CONTRACT
/* the guarantee: the real dt_dtadd() is the contract */
# define SHAPE_DAISY	1
# define SHAPE_YMD	2
# define SHAPE_HMS	3
# if !defined SHAPE
#  define SHAPE	SHAPE_DAISY
# endif

void
h_contract(void)
{
	ND(i32, vn);
	ND(u8, vunit);
	struct dt_dt_s d;
	struct dt_dtdur_s dur;
	struct dt_dt_s real, model;

	memset(&d, 0, sizeof(d));
	memset(&dur, 0, sizeof(dur));
	ASSUME(vn >= -C_NMAX && vn <= C_NMAX);
# if SHAPE == SHAPE_DAISY
	{
		ND(i32, vday);
		ASSUME(vday >= C_DLO && vday <= C_DHI);
		ASSUME(vunit == DT_DURD || vunit == DT_DURWK || vunit == DT_DURH || vunit == DT_DURM || vunit == DT_DURS);
		d.d.daisy = vday;
		dt_make_d_only(&d, DT_DAISY);
	}
# elif SHAPE == SHAPE_YMD
	{
		ND(i32, vy);
		ND(i32, vm);
		ND(i32, vd);
		ASSUME(vy >= YLO && vy <= YHI && vy > REF_MIN_YEAR && vy < REF_MAX_YEAR);
		ASSUME(vm >= 1 && vm <= 12 && vd >= 1 && vd <= 31);
		ASSUME(vunit == DT_DURMO || vunit == DT_DURYR || vunit == DT_DURH || vunit == DT_DURM || vunit == DT_DURS);
		d.d.ymd.y = vy, d.d.ymd.m = vm, d.d.ymd.d = vd;
		dt_make_d_only(&d, DT_YMD);
	}
# else
	{
		ND(u8, vh);
		ND(u8, vmi);
		ND(u8, vs);
		ASSUME(vh < 24 && vmi < 60 && vs < 60);
		ASSUME(vunit == DT_DURH || vunit == DT_DURM || vunit == DT_DURS || vunit == DT_DURD ||
		       vunit == DT_DURWK || vunit == DT_DURMO || vunit == DT_DURYR);
		ASSUME(vunit != DT_DURH || (vn > -24 && vn < 24));
		ASSUME((vunit != DT_DURM && vunit != DT_DURS) || (vn > -60 && vn < 60));
		d.t.hms.h = vh, d.t.hms.m = vmi, d.t.hms.s = vs;
		dt_make_t_only(&d, DT_HMS);
	}
# endif
	if (vunit == DT_DURH || vunit == DT_DURM || vunit == DT_DURS) {
		dur.durtyp = (dt_dtdurtyp_t)vunit;
		dur.dv = vn;
	} else {
		dur.d = dt_make_ddur((dt_durtyp_t)vunit, vn);
	}
	real = dt_dtadd(d, dur);
	model = vf_dtadd(d, dur);
	CHECK(vf_contract_domain, "contract domain covers the inputs");
	CHECK(real.typ == model.typ && real.sandwich == model.sandwich, "contract: kind of value");
	CHECK(real.d.typ == model.d.typ && real.d.u == model.d.u, "contract: date part");
	CHECK(real.t.typ == model.t.typ && real.t.u == model.t.u, "contract: time part");
# if SHAPE == SHAPE_HMS
	CHECK(real.t.carry == model.t.carry, "contract: day carry");
# endif
	WITNESS();
}

/* the guarantee for the order: real dt_dtcmp() and dt_dt_in_range_p() */
void
h_contract_cmp(void)
{
	struct dt_dt_s v[3];
	int c01, c02, ir;

	memset(v, 0, sizeof(v));
# if SHAPE == SHAPE_DAISY
	{
		ND_ARR(i32, vday, 3);
		for (int i = 0; i < 3; i++) {
			ASSUME(vday[i] >= C_DLO && vday[i] <= C_DHI);
			v[i].d.daisy = vday[i];
			dt_make_d_only(v + i, DT_DAISY);
		}
	}
# else
	{
		ND_ARR(i32, vy, 3);
		ND_ARR(i32, vm, 3);
		ND_ARR(i32, vd, 3);
		for (int i = 0; i < 3; i++) {
			ASSUME(vy[i] > REF_MIN_YEAR && vy[i] < REF_MAX_YEAR);
			ASSUME(vm[i] >= 1 && vm[i] <= 12 && vd[i] >= 1 && vd[i] <= 31);
			v[i].d.ymd.y = vy[i], v[i].d.ymd.m = vm[i], v[i].d.ymd.d = vd[i];
			dt_make_d_only(v + i, DT_YMD);
		}
	}
# endif
	c01 = dt_dtcmp(v[0], v[1]);
	c02 = dt_dtcmp(v[0], v[2]);
	ir = dt_dt_in_range_p(v[0], v[1], v[2]);
	CHECK(c01 == vf_dtcmp(v[0], v[1]), "contract: order of two values");
# if SHAPE == SHAPE_DAISY
	CHECK(dt_get_wday(v[0].d) == (dt_dow_t)ref_wday((int)v[0].d.daisy), "contract: the weekday is a function of the day number (the calendar's)");
# endif
	CHECK((ir == 1) == (vf_in_range(v[0], v[1], v[2]) == 1), "contract: in range iff lo <= d <= hi");
	CHECK(vf_contract_domain, "contract domain covers the inputs");
	(void)c02;
	WITNESS();
}

/* the crop main() applies before its range test: dt_fixup() on date-only and
 * on date-time values crops the day to the month's end and leaves the time
 * alone; times of day pass unchanged */
void
h_contract_fixup(void)
{
	ND(i32, vy);
	ND(i32, vm);
	ND(i32, vd);
	ND(u8, vh);
	ND(u8, vmi);
	ND(u8, vs);
	ND(u8, vkind);
	struct dt_dt_s d, r;
	int md;

	ASSUME(vy > REF_MIN_YEAR && vy < REF_MAX_YEAR && vm >= 1 && vm <= 12 && vd >= 1 && vd <= 31);
	ASSUME(vh < 24 && vmi < 60 && vs < 60);
	ASSUME(vkind <= 2);
	memset(&d, 0, sizeof(d));
	if (vkind == 0) {
		d.d.ymd.y = vy, d.d.ymd.m = vm, d.d.ymd.d = vd;
		dt_make_d_only(&d, DT_YMD);
	} else if (vkind == 1) {
		d.d.ymd.y = vy, d.d.ymd.m = vm, d.d.ymd.d = vd;
		d.t.hms.h = vh, d.t.hms.m = vmi, d.t.hms.s = vs;
		dt_make_sandwich(&d, DT_YMD, DT_HMS);
	} else {
		d.t.hms.h = vh, d.t.hms.m = vmi, d.t.hms.s = vs;
		dt_make_t_only(&d, DT_HMS);
	}
	r = dt_fixup(d);
	md = ref_mdays(vy, vm);
	if (vkind <= 1) {
		CHECK((int)r.d.ymd.y == vy && (int)r.d.ymd.m == vm && (int)r.d.ymd.d == (vd > md ? md : vd),
		      "the day is cropped to the month's end, for dates and for date-times");
	}
	CHECK(r.t.u == d.t.u && r.typ == d.typ && r.sandwich == d.sandwich && r.d.typ == d.d.typ, "nothing else changes");
	WITNESS();
}

#else  /* !PART_CONTRACT */
# define dt_dtadd	vf_dtadd
# define dt_dtcmp	vf_dtcmp
# define dt_dt_in_range_p	vf_in_range
# define dt_get_wday	vf_get_wday
# define main	dseq_main
# include "dseq.c"
# undef main
# undef dt_dtadd
# undef dt_dtcmp
# undef dt_dt_in_range_p
# undef dt_get_wday

/* The run of main() is
 *	if (naught(ite) || !(dir = __get_dir(fst))) refuse;
 *	tmp = from_last ? __fixup_fst() : __seq_this(fst);
 *	for (; __in_range_p(dt_fixup(tmp)); tmp = __seq_next(tmp)) print(tmp);
 * A whole run of even four members does not fit the solver here (3 million
 * SSA steps, > 10 GB: every value is a union that is passed through five
 * calls per member), so the run is decided through its steps, each from an
 * arbitrary state:
 *   DIR    __get_dir(FIRST) is the sign of the movement, 0 iff no movement
 *   RANGE  __in_range_p(x) iff x has not passed LAST (and not before FIRST)
 *   THIS   __seq_this(x) = x + j*INC for the least j >= 0 whose value is not
 *          (skipped and in range)
 *   NEXT   __seq_next(x) = THIS(x + INC), strictly beyond x
 *   LAST   __fixup_fst() = the earliest member of {LAST - j*INC} in range
 *          and not skipped
 * By induction over the loop these give: printed = the members FIRST + k*INC
 * in range and not skipped, in order, ending at the first member beyond
 * LAST; NEXT's strict progress and RANGE's bound give termination.  The
 * induction itself is an argument, not a solver query (DESIGN 8/C15). */

static struct dt_dtdur_s
mk_dur(unsigned int unit, int n)
{
	struct dt_dtdur_s dur;

	memset(&dur, 0, sizeof(dur));
	if (unit == DT_DURH || unit == DT_DURM || unit == DT_DURS) {
		dur.durtyp = (dt_dtdurtyp_t)unit;
		dur.dv = n;
	} else {
		dur.d = dt_make_ddur((dt_durtyp_t)unit, n);
	}
	return dur;
}

#if !defined UNIT
# define UNIT	DT_DURD
#endif
#if !defined JMAX
# define JMAX	8	/* members the skip loop may pass */
#endif

/* ---- day numbers, day and week steps, any skip set ---- */
static struct dt_dt_s
mk_day(int n)
{
	struct dt_dt_s d;

	memset(&d, 0, sizeof(d));
	d.d.daisy = n;
	dt_make_d_only(&d, DT_DAISY);
	return d;
}

static int
ref_day_in(int x, int fst, int lst, int dir)
{
	return dir > 0 ? (x >= fst && x <= lst) : (x <= fst && x >= lst);
}

static int
ref_skipped(unsigned int ss, int x)
{
	return (ss >> vf_wday_of(x)) & 1;
}

/* the first of x, x + step, x + 2 step, ... (at most JMAX steps) that is not
 * (skipped and in range); *found says whether there is one.  Computed by
 * repeated addition like the code: a product j*step of two symbols is a
 * multiplier circuit the SAT back end cannot relate to a chain of adders */
static int
ref_this_v(int x, int step, unsigned int ss, int fst, int lst, int dir, int *found)
{
	int v = x;

	*found = 0;
	for (int j = 0; j <= JMAX; j++) {
		if (!(ref_skipped(ss, v) && ref_day_in(v, fst, lst, dir))) {
			*found = 1;
			return v;
		}
		v += step;
	}
	return v;
}

void
h_days(void)
{
	ND(i32, vfst);
	ND(i32, vk);
	ND(i32, vn);
	ND(i32, vx);
	ND(u8, vskip);
	/* the weekday table: left uninitialised, i.e. arbitrary for the solver */
	unsigned char wdtab[WN];
	struct dseq_clo_s clo;
	struct dt_dtdur_s ite;
	int lst, step, dir, j;

	vf_wd = wdtab;
	vf_wd_base = (LEMMA == 1 ? vfst : LEMMA == 5 ? vfst + vk : vx) - WN / 2;

	ASSUME(vfst >= 2000 && vfst <= 900000);
	ASSUME(vk >= -1000 && vk <= 1000);
	ASSUME(vn >= -NMAX && vn <= NMAX);
	ASSUME(vx >= vfst - 1100 && vx <= vfst + 1100);
	/* bits 1..7 = Monday..Sunday, never all seven */
	ASSUME((vskip & 0x7f) != 0x7f);
	lst = vfst + vk;
	memset(&clo, 0, sizeof(clo));
	clo.fst = mk_day(vfst);
	clo.lst = mk_day(lst);
	ite = mk_dur(UNIT, vn);
	clo.ite = &ite;
	clo.nite = 1;
	clo.ss = (vskip & 0x7f) << 1;
	step = UNIT == DT_DURWK ? 7 * vn : UNIT == DT_DURD ? vn : 0;

#if LEMMA == 1	/* DIR */
	if (__durstack_naught_p(clo.ite, clo.nite)) {
		CHECK(vn == 0, "only a zero increment counts as naught");
	} else {
		dir = __get_dir(clo.fst, &clo);
		CHECK(step > 0 ? dir > 0 : step < 0 ? dir < 0 : dir == 0,
		      "direction is the sign of the movement; an increment that cannot move a date is refused");
	}
#else
	ASSUME(step != 0);
	dir = step > 0 ? 1 : -1;
	clo.dir = dir;
# if LEMMA == 2	/* RANGE */
	CHECK(__in_range_p(mk_day(vx), &clo) == (bool)ref_day_in(vx, vfst, lst, dir), "in range iff between FIRST and LAST in the direction of INC");
# elif LEMMA == 3	/* THIS */
	{
		int e = ref_this_v(vx, step, clo.ss, vfst, lst, dir, &j);
		ASSUME(j);
		CHECK((int)__seq_this(mk_day(vx), &clo).d.daisy == e, "this: the first member from x on that is not skipped, or the first beyond the bounds");
	}
# elif LEMMA == 4	/* NEXT */
	{
		int e = ref_this_v(vx + step, step, clo.ss, vfst, lst, dir, &j);
		int r;
		ASSUME(j);
		r = (int)__seq_next(mk_day(vx), &clo).d.daisy;
		CHECK(r == e, "next: one increment, then the first member not skipped");
		CHECK(dir > 0 ? r > vx : r < vx, "next moves strictly in the direction of INC");
	}
# elif LEMMA == 5	/* LAST */
	{
		/* the members LAST - j*INC inside the bounds, 0 <= j <= JMAX assumed to cover them all */
		int best = 0, have = 0;
		int r;

		int v = lst;

		for (int jj = 0; jj <= JMAX; jj++) {
			if (ref_day_in(v, vfst, lst, dir) && !ref_skipped(clo.ss, v)) {
				best = v, have = 1;
			}
			v -= step;
		}
		/* v is now LAST - (JMAX+1) increments: beyond FIRST, so all anchored members were seen */
		ASSUME(dir > 0 ? v + step < vfst : v + step > vfst);
		r = (int)__fixup_fst(&clo).d.daisy;
		if (have) {
			CHECK(r == best, "from-last: starts at the earliest member of the progression that ends on LAST");
		} else {
			CHECK(!ref_day_in(r, vfst, lst, dir) || ref_skipped(clo.ss, r), "from-last: nothing to print when every anchored member is skipped or out of bounds");
		}
		CHECK(clo.ite->d.dv == vn, "from-last leaves the increment as it was");
	}
# endif
#endif
	CHECK(vf_contract_domain, "contract domain covers the step");
	(void)j;
	WITNESS();
}

/* ---- ymd dates, month and year steps (no skip set) ---- */
static struct dt_dt_s
mk_ymd(int y, int m, int d)
{
	struct dt_dt_s x;

	memset(&x, 0, sizeof(x));
	x.d.ymd.y = y, x.d.ymd.m = m, x.d.ymd.d = d;
	dt_make_d_only(&x, DT_YMD);
	return x;
}

void
h_months(void)
{
	ND(i32, vy);
	ND(i32, vm);
	ND(i32, vd);
	ND(i32, vly);
	ND(i32, vlm);
	ND(i32, vld);
	ND(i32, vxy);
	ND(i32, vxm);
	ND(i32, vn);
	struct dseq_clo_s clo;
	struct dt_dtdur_s ite;
	int step, dir, fkey, lkey, xkey, xd;

	/* FIRST at least 75 years inside the supported range: the state may be 66 years and a step 5 years away */
	ASSUME(vy >= YLO && vy <= YHI && vy > REF_MIN_YEAR + 75 && vy < REF_MAX_YEAR - 75);
	ASSUME(ref_valid_ymd(vy, vm, vd));
	ASSUME(vly >= vy - 60 && vly <= vy + 60);
	ASSUME(ref_valid_ymd(vly, vlm, vld));
	ASSUME(vxy >= vy - 66 && vxy <= vy + 66 && vxm >= 1 && vxm <= 12);
	ASSUME(vn >= -NMAX && vn <= NMAX && vn != 0);
	step = UNIT == DT_DURYR ? 12 * vn : vn;
	dir = step > 0 ? 1 : -1;
	memset(&clo, 0, sizeof(clo));
	clo.fst = mk_ymd(vy, vm, vd);
	clo.lst = mk_ymd(vly, vlm, vld);
	ite = mk_dur(UNIT, vn);
	clo.ite = &ite;
	clo.nite = 1;
	/* the state: some month, FIRST's day of the month (kept by the adder, cropped by dt_fixup) */
	xd = ref_mdays(vxy, vxm) < vd ? ref_mdays(vxy, vxm) : vd;
	fkey = (vy * 12 + vm - 1) * 32 + vd;
	lkey = (vly * 12 + vlm - 1) * 32 + vld;
	xkey = (vxy * 12 + vxm - 1) * 32 + xd;

#if LEMMA == 1	/* DIR */
	CHECK(!__durstack_naught_p(clo.ite, clo.nite), "a non-zero increment is not naught");
	{
		int d = __get_dir(clo.fst, &clo);
		CHECK(dir > 0 ? d > 0 : d < 0, "direction is the sign of the increment");
	}
#elif LEMMA == 2	/* RANGE, on the cropped value as main() tests it */
	clo.dir = dir;
	{
		struct dt_dt_s x = dt_fixup(mk_ymd(vxy, vxm, vd));
		CHECK((int)x.d.ymd.y == vxy && (int)x.d.ymd.m == vxm && (int)x.d.ymd.d == xd, "the day is cropped to the month's end for printing");
		CHECK(__in_range_p(x, &clo) == (bool)(dir > 0 ? (xkey >= fkey && xkey <= lkey) : (xkey <= fkey && xkey >= lkey)),
		      "in range iff the cropped date is between FIRST and LAST");
	}
#elif LEMMA == 3	/* THIS and NEXT */
	clo.dir = dir;
	{
		struct dt_dt_s x = mk_ymd(vxy, vxm, vd);
		struct dt_dt_s t = __seq_this(x, &clo);
		struct dt_dt_s n = __seq_next(x, &clo);
		int tm = vxy * 12 + (vxm - 1) + step;
		CHECK((int)t.d.ymd.y == vxy && (int)t.d.ymd.m == vxm && (int)t.d.ymd.d == vd, "this: no skip set, the value itself");
		CHECK((int)n.d.ymd.y == tm / 12 && (int)n.d.ymd.m == tm % 12 + 1 && (int)n.d.ymd.d == vd,
		      "next: one increment in one step from FIRST's day of the month (k-th member = FIRST + k*INC, cropped)");
	}
#endif
	CHECK(vf_contract_domain, "contract domain covers the step");
	(void)xkey, (void)fkey, (void)lkey;
	WITNESS();
}

/* ---- times of day, h/m/s steps (single or compound), no skip set; the
 * state is the time and the day carries date_add() keeps in d.u ---- */
static struct dt_dt_s
mk_tod(int h, int m, int sec, int carries)
{
	struct dt_dt_s x;

	memset(&x, 0, sizeof(x));
	x.t.hms.h = h, x.t.hms.m = m, x.t.hms.s = sec;
	dt_make_t_only(&x, DT_HMS);
	x.d.u = (uint32_t)carries;
	return x;
}

void
h_times(void)
{
	ND_ARR(u8, vf, 3);	/* FIRST h, m, s */
	ND_ARR(u8, vl, 3);	/* LAST */
	ND_ARR(u8, vx, 3);	/* the state's time */
	ND(i32, vn);
	ND(i32, vn2);
	ND(i32, vc);
	struct dseq_clo_s clo;
	struct dt_dtdur_s ite[2];
	int step, astep, dir, dist, off;
	int vs0, vsl, vt;

	ASSUME(vf[0] < 24 && vf[1] < 60 && vf[2] < 60);
	ASSUME(vl[0] < 24 && vl[1] < 60 && vl[2] < 60);
	ASSUME(vx[0] < 24 && vx[1] < 60 && vx[2] < 60);
	/* seconds of the day in the same form vf_secs() uses */
	vs0 = (vf[0] * 60 + vf[1]) * 60 + vf[2];
	vsl = (vl[0] * 60 + vl[1]) * 60 + vl[2];
	vt = (vx[0] * 60 + vx[1]) * 60 + vx[2];
	/* equal bounds are outside: the tool goes once around the clock, the
	 * property's text can be read either way */
	ASSUME(vs0 != vsl);
	ASSUME(vn >= -NMAX && vn <= NMAX && vn != 0);
	memset(&clo, 0, sizeof(clo));
	clo.fst = mk_tod(vf[0], vf[1], vf[2], 0);
	clo.lst = mk_tod(vl[0], vl[1], vl[2], 0);
	ite[0] = mk_dur(UNIT, vn);
	clo.ite = ite;
	clo.nite = 1;
#if defined UNIT2
	/* compound increment, e.g. 1h30m: both parts in the same direction */
	ASSUME(vn2 >= -NMAX && vn2 <= NMAX && vn2 != 0 && (vn2 > 0) == (vn > 0));
	ite[1] = mk_dur(UNIT2, vn2);
	clo.nite = 2;
# define USECS(u)	((u) == DT_DURH ? 3600 : (u) == DT_DURM ? 60 : (u) == DT_DURS ? 1 : 0)
	step = vn * USECS(UNIT) + vn2 * USECS(UNIT2);
#else
# define USECS(u)	((u) == DT_DURH ? 3600 : (u) == DT_DURM ? 60 : (u) == DT_DURS ? 1 : 0)
	step = vn * USECS(UNIT);
#endif
	/* steps of a day and more are outside */
	ASSUME(step > -86400 && step < 86400);
	astep = step > 0 ? step : -step;
	dir = step > 0 ? 1 : -1;
	dist = step > 0 ? vsl - vs0 : vs0 - vsl;
	if (dist < 0) {
		dist += 86400;
	}

#if LEMMA == 1	/* DIR */
	CHECK(!__durstack_naught_p(clo.ite, clo.nite), "a non-zero increment is not naught");
	{
		int d = __get_dir(clo.fst, &clo);
		CHECK(step > 0 ? d > 0 : step < 0 ? d < 0 : d == 0,
		      "direction is the sign of the movement; a unit that cannot move a time of day is refused, never run endlessly");
	}
#else
	ASSUME(step != 0);
	clo.dir = dir;
	/* a state the loop can be in: time vt on day vc after FIRST's, not
	 * before FIRST, and the predecessor still in range (the loop stops at
	 * the first member beyond LAST); that the offset is a multiple of INC
	 * is not used */
	ASSUME(vc >= -3 && vc <= 3);
	off = dir > 0 ? vc * 86400 + vt - vs0 : vs0 - (vc * 86400 + vt);
	ASSUME(off >= 0 && off - astep <= dist);
# if LEMMA == 2	/* RANGE */
	CHECK(__in_range_p(mk_tod(vx[0], vx[1], vx[2], vc), &clo) == (bool)(off <= dist),
	      "in range iff LAST has not been passed, going around the clock in the direction of INC");
# elif LEMMA == 3	/* THIS and NEXT */
	{
		struct dt_dt_s x = mk_tod(vx[0], vx[1], vx[2], vc);
		struct dt_dt_s t = __seq_this(x, &clo);
		struct dt_dt_s n = __seq_next(x, &clo);
		/* x + INC field by field in one go (seconds, then minutes, then
		 * hours, then days); equal to "seconds since FIRST's midnight plus
		 * step" because the fields stay in their ranges, and without the
		 * products the SAT back end cannot relate to the code's carries */
		int dh = 0, dm = 0, ds = 0;
		int S, M, H, cs, cm, ch;
		ASSUME(off <= dist);
		CHECK(vf_secs(t.t) == vt && (int32_t)t.d.u == vc, "this: no skip set, the value itself");
		if (UNIT == DT_DURH) {
			dh += vn;
		} else if (UNIT == DT_DURM) {
			dm += vn;
		} else {
			ds += vn;
		}
#if defined UNIT2
		if (UNIT2 == DT_DURH) {
			dh += vn2;
		} else if (UNIT2 == DT_DURM) {
			dm += vn2;
		} else {
			ds += vn2;
		}
#endif
		S = vx[2] + ds;
		cs = S < 0 ? -1 : S >= 60 ? 1 : 0;
		M = vx[1] + dm + cs;
		cm = M < 0 ? -1 : M >= 60 ? 1 : 0;
		H = vx[0] + dh + cm;
		ch = H < 0 ? -1 : H >= 24 ? 1 : 0;
		CHECK((int)n.t.hms.s == S - 60 * cs && (int)n.t.hms.m == M - 60 * cm && (int)n.t.hms.h == H - 24 * ch,
		      "next: one increment further around the clock");
		CHECK((int32_t)n.d.u == vc + ch, "next: day carries accounted");
	}
# endif
#endif
	CHECK(vf_contract_domain, "contract domain covers the step");
	(void)astep, (void)dist, (void)off, (void)vc, (void)vt, (void)vn2;
	WITNESS();
}
#endif	/* PART_CONTRACT */
