/* C15 -- dateseq emits exactly the arithmetic progression between its bounds
 * unit under test: src/dseq.c (textually, main renamed): __get_dir,
 * __seq_this, __seq_next, __in_range_p, __fixup_fst, skipp, date_add,
 * date_neg_dur, __durstack_naught_p; called in the order main() calls them
 * from the naught test on (the option parser and the text parsers are not
 * driven: FIRST, LAST and the increment are handed over as values, in the
 * representation main() has at that point).
 *
 * assume-guarantee: inside dseq.c the library's dt_dtadd(), dt_dtcmp() and
 * dt_dt_in_range_p() are replaced by their contracts vf_dtadd(), vf_dtcmp()
 * and vf_in_range() (so that a dozen iterations stay solvable); the
 * obligations h_contract and h_contract_cmp prove the real functions equal to
 * the contracts on the domain the sequences use, and the stubs record whether
 * they were ever called outside that domain */
#include "vf.h"
#include "ref.h"
#include "dt-core.h"

#if !defined KMAX
# define KMAX	6	/* at most KMAX + 1 members between the bounds */
#endif
#if !defined NMAX
# define NMAX	3	/* |INC| */
#endif
#if !defined YLO
# define YLO	1601
#endif
#if !defined YHI
# define YHI	4095
#endif
#define MAXOUT	(KMAX + 2)
/* the domain of the contract */
#define C_DLO	500
#define C_DHI	905000
#define C_NMAX	64

static int vf_contract_domain = 1;

static int
vf_secs(struct dt_t_s t)
{
	return ((int)t.hms.h * 60 + (int)t.hms.m) * 60 + (int)t.hms.s;
}

/* what dt_dtadd() does for date-only day numbers and ymd dates and for
 * time-only values, written from its documentation (dates: add days, or
 * months/years keeping the day of the month, which dt_fixup() crops later;
 * times: add modulo 24 hours and report the day carry in t.carry; a unit
 * that does not apply leaves the value alone) */
static struct dt_dt_s
vf_dtadd(struct dt_dt_s d, struct dt_dtdur_s dur)
{
	/* time units hold their count in the 48-bit .dv, date units in .d.dv */
	int n = dur.durtyp == DT_DURH || dur.durtyp == DT_DURM || dur.durtyp == DT_DURS ? (int)dur.dv : (int)dur.d.dv;

	if (dt_sandwich_only_d_p(d) && d.d.typ == DT_DAISY) {
		vf_contract_domain &= (int)d.d.daisy >= C_DLO && (int)d.d.daisy <= C_DHI && n >= -C_NMAX && n <= C_NMAX;
		if (dur.durtyp == DT_DURD) {
			d.d.daisy += n;
		} else if (dur.durtyp == DT_DURWK) {
			d.d.daisy += 7 * n;
		}
	} else if (dt_sandwich_only_d_p(d) && d.d.typ == DT_YMD) {
		vf_contract_domain &= (int)d.d.ymd.y > REF_MIN_YEAR && (int)d.d.ymd.y < REF_MAX_YEAR &&
			d.d.ymd.m >= 1 && d.d.ymd.m <= 12 && d.d.ymd.d >= 1 && d.d.ymd.d <= 31 && n >= -C_NMAX && n <= C_NMAX;
		if (dur.durtyp == DT_DURMO || dur.durtyp == DT_DURYR) {
			int t = (int)d.d.ymd.y * 12 + ((int)d.d.ymd.m - 1) + (dur.durtyp == DT_DURYR ? 12 * n : n);
			d.d.ymd.y = t / 12;
			d.d.ymd.m = t % 12 + 1;
		}
	} else if (dt_sandwich_only_t_p(d)) {
		vf_contract_domain &= d.t.typ == DT_HMS && d.t.hms.h < 24 && d.t.hms.m < 60 && d.t.hms.s < 60 &&
			d.t.hms.ns == 0 && n >= -C_NMAX && n <= C_NMAX;
		switch (dur.durtyp) {
		case DT_DURH:
		case DT_DURM:
		case DT_DURS:
			break;
		default:
			return d;
		}
		{
			/* |step| < 24 h here (|n| <= 59 minutes/seconds, hours taken modulo 24);
			 * carry by cascade, a solver chokes on the division form */
			int h = (int)d.t.hms.h, m = (int)d.t.hms.m, sec = (int)d.t.hms.s;
			int c = 0;

			if (dur.durtyp == DT_DURH) {
				h += n % 24;
			} else if (dur.durtyp == DT_DURM) {
				h += n / 60, m += n % 60;
			} else {
				m += n / 60, sec += n % 60;
			}
			if (sec < 0) {
				sec += 60, m--;
			} else if (sec >= 60) {
				sec -= 60, m++;
			}
			if (m < 0) {
				m += 60, h--;
			} else if (m >= 60) {
				m -= 60, h++;
			}
			if (h < 0) {
				h += 24, c = -1;
			} else if (h >= 24) {
				h -= 24, c = 1;
			}
			d.t.hms.h = h;
			d.t.hms.m = m;
			d.t.hms.s = sec;
			d.t.carry = c;
		}
	} else {
		vf_contract_domain = 0;
	}
	return d;
}

/* the order of two values of one kind: day numbers by number, ymd dates by
 * (year, month, day) -- also for days beyond the month's end, which the
 * sequence holds until dt_fixup() crops them */
static int
vf_dtcmp(struct dt_dt_s a, struct dt_dt_s b)
{
	if (dt_sandwich_only_d_p(a) && dt_sandwich_only_d_p(b) && a.d.typ == DT_DAISY && b.d.typ == DT_DAISY) {
		vf_contract_domain &= (int)a.d.daisy >= C_DLO && (int)a.d.daisy <= C_DHI &&
			(int)b.d.daisy >= C_DLO && (int)b.d.daisy <= C_DHI;
		return a.d.daisy < b.d.daisy ? -1 : a.d.daisy > b.d.daisy;
	} else if (dt_sandwich_only_d_p(a) && dt_sandwich_only_d_p(b) && a.d.typ == DT_YMD && b.d.typ == DT_YMD) {
		int ka = ((int)a.d.ymd.y * 12 + (int)a.d.ymd.m) * 32 + (int)a.d.ymd.d;
		int kb = ((int)b.d.ymd.y * 12 + (int)b.d.ymd.m) * 32 + (int)b.d.ymd.d;
		vf_contract_domain &= a.d.ymd.m >= 1 && a.d.ymd.m <= 12 && a.d.ymd.d >= 1 && a.d.ymd.d <= 31 &&
			b.d.ymd.m >= 1 && b.d.ymd.m <= 12 && b.d.ymd.d >= 1 && b.d.ymd.d <= 31 &&
			(int)a.d.ymd.y > REF_MIN_YEAR && (int)a.d.ymd.y < REF_MAX_YEAR &&
			(int)b.d.ymd.y > REF_MIN_YEAR && (int)b.d.ymd.y < REF_MAX_YEAR;
		return ka < kb ? -1 : ka > kb;
	}
	vf_contract_domain = 0;
	return -2;
}

/* 1 iff D1 <= D <= D2 (dseq tests for 1 only) */
static int
vf_in_range(struct dt_dt_s d, struct dt_dt_s d1, struct dt_dt_s d2)
{
	return vf_dtcmp(d, d1) >= 0 && vf_dtcmp(d, d2) <= 0;
}

#if defined PART_CONTRACT
/* the guarantee: the real dt_dtadd() is the contract */
# define SHAPE_DAISY	1
# define SHAPE_YMD	2
# define SHAPE_HMS	3
# if !defined SHAPE
#  define SHAPE	SHAPE_DAISY
# endif

void
h_contract(void)
{
	ND(i32, vn);
	ND(u8, vunit);
	struct dt_dt_s d;
	struct dt_dtdur_s dur;
	struct dt_dt_s real, model;

	memset(&d, 0, sizeof(d));
	memset(&dur, 0, sizeof(dur));
	ASSUME(vn >= -C_NMAX && vn <= C_NMAX);
# if SHAPE == SHAPE_DAISY
	{
		ND(i32, vday);
		ASSUME(vday >= C_DLO && vday <= C_DHI);
		ASSUME(vunit == DT_DURD || vunit == DT_DURWK || vunit == DT_DURH || vunit == DT_DURM || vunit == DT_DURS);
		d.d.daisy = vday;
		dt_make_d_only(&d, DT_DAISY);
	}
# elif SHAPE == SHAPE_YMD
	{
		ND(i32, vy);
		ND(i32, vm);
		ND(i32, vd);
		ASSUME(vy >= YLO && vy <= YHI && vy > REF_MIN_YEAR && vy < REF_MAX_YEAR);
		ASSUME(vm >= 1 && vm <= 12 && vd >= 1 && vd <= 31);
		ASSUME(vunit == DT_DURMO || vunit == DT_DURYR || vunit == DT_DURH || vunit == DT_DURM || vunit == DT_DURS);
		d.d.ymd.y = vy, d.d.ymd.m = vm, d.d.ymd.d = vd;
		dt_make_d_only(&d, DT_YMD);
	}
# else
	{
		ND(u8, vh);
		ND(u8, vmi);
		ND(u8, vs);
		ASSUME(vh < 24 && vmi < 60 && vs < 60);
		ASSUME(vunit == DT_DURH || vunit == DT_DURM || vunit == DT_DURS || vunit == DT_DURD ||
		       vunit == DT_DURWK || vunit == DT_DURMO || vunit == DT_DURYR);
		d.t.hms.h = vh, d.t.hms.m = vmi, d.t.hms.s = vs;
		dt_make_t_only(&d, DT_HMS);
	}
# endif
	if (vunit == DT_DURH || vunit == DT_DURM || vunit == DT_DURS) {
		dur.durtyp = (dt_dtdurtyp_t)vunit;
		dur.dv = vn;
	} else {
		dur.d = dt_make_ddur((dt_durtyp_t)vunit, vn);
	}
	real = dt_dtadd(d, dur);
	model = vf_dtadd(d, dur);
	CHECK(vf_contract_domain, "contract domain covers the inputs");
	CHECK(real.typ == model.typ && real.sandwich == model.sandwich, "contract: kind of value");
	CHECK(real.d.typ == model.d.typ && real.d.u == model.d.u, "contract: date part");
	CHECK(real.t.typ == model.t.typ && real.t.u == model.t.u, "contract: time part");
# if SHAPE == SHAPE_HMS
	CHECK(real.t.carry == model.t.carry, "contract: day carry");
# endif
	WITNESS();
}

/* the guarantee for the order: real dt_dtcmp() and dt_dt_in_range_p() */
void
h_contract_cmp(void)
{
	struct dt_dt_s v[3];
	int c01, c02, ir;

	memset(v, 0, sizeof(v));
# if SHAPE == SHAPE_DAISY
	{
		ND_ARR(i32, vday, 3);
		for (int i = 0; i < 3; i++) {
			ASSUME(vday[i] >= C_DLO && vday[i] <= C_DHI);
			v[i].d.daisy = vday[i];
			dt_make_d_only(v + i, DT_DAISY);
		}
	}
# else
	{
		ND_ARR(i32, vy, 3);
		ND_ARR(i32, vm, 3);
		ND_ARR(i32, vd, 3);
		for (int i = 0; i < 3; i++) {
			ASSUME(vy[i] > REF_MIN_YEAR && vy[i] < REF_MAX_YEAR);
			ASSUME(vm[i] >= 1 && vm[i] <= 12 && vd[i] >= 1 && vd[i] <= 31);
			v[i].d.ymd.y = vy[i], v[i].d.ymd.m = vm[i], v[i].d.ymd.d = vd[i];
			dt_make_d_only(v + i, DT_YMD);
		}
	}
# endif
	c01 = dt_dtcmp(v[0], v[1]);
	c02 = dt_dtcmp(v[0], v[2]);
	ir = dt_dt_in_range_p(v[0], v[1], v[2]);
	CHECK(c01 == vf_dtcmp(v[0], v[1]), "contract: order of two values");
	CHECK((ir == 1) == (vf_in_range(v[0], v[1], v[2]) == 1), "contract: in range iff lo <= d <= hi");
	CHECK(vf_contract_domain, "contract domain covers the inputs");
	(void)c02;
	WITNESS();
}

#else  /* !PART_CONTRACT */
# define dt_dtadd	vf_dtadd
# define dt_dtcmp	vf_dtcmp
# define dt_dt_in_range_p	vf_in_range
# define main	dseq_main
# include "dseq.c"
# undef main
# undef dt_dtadd
# undef dt_dtcmp
# undef dt_dt_in_range_p

/* what was emitted: day number / (y*12+m-1)*32+d / seconds of the day */
static int outv[MAXOUT];
static unsigned int nout;

static int
vf_key(struct dt_dt_s d)
{
	if (dt_sandwich_only_t_p(d)) {
		return vf_secs(d.t);
	} else if (d.d.typ == DT_DAISY) {
		return (int)d.d.daisy;
	}
	return ((int)d.d.ymd.y * 12 + (int)d.d.ymd.m - 1) * 32 + (int)d.d.ymd.d;
}

/* main() from the naught test to the output loop; -1 refused, 1 ran into
 * the guard (more members than the bound, or endless), 0 otherwise */
static int
vf_run(struct dseq_clo_s *clo, int from_last)
{
	struct dt_dt_s tmp;
	unsigned int guard = 0;

	if (__durstack_naught_p(clo->ite, clo->nite) || !(clo->dir = __get_dir(clo->fst, clo))) {
		return -1;
	} else if (from_last) {
		tmp = __fixup_fst(clo);
	} else {
		tmp = __seq_this(clo->fst, clo);
	}
	for (; __in_range_p(dt_fixup(tmp), clo); tmp = __seq_next(tmp, clo)) {
		if (guard++ >= MAXOUT) {
			return 1;
		}
		outv[nout++] = vf_key(dt_fixup(tmp));
	}
	return 0;
}

static struct dt_dtdur_s
mk_dur(unsigned int unit, int n)
{
	struct dt_dtdur_s dur;

	memset(&dur, 0, sizeof(dur));
	if (unit == DT_DURH || unit == DT_DURM || unit == DT_DURS) {
		dur.durtyp = (dt_dtdurtyp_t)unit;
		dur.dv = n;
	} else {
		dur.d = dt_make_ddur((dt_durtyp_t)unit, n);
	}
	return dur;
}

/* day and week steps over day-number held dates (what main() iterates after
 * its switch to day counts), with an arbitrary set of skipped weekdays; a
 * time unit between two dates must be refused or give nothing */
void
h_seq_days(void)
{
	ND(i32, vfst);
	ND(i32, vk);
	ND(i32, vn);
	ND(u8, vunit);
	ND(u8, vskip);
	ND(u8, vlast);
	struct dseq_clo_s clo;
	struct dt_dtdur_s ite;
	int step, dir, lastv, rc;
	int expn = 0;
	int ok = 1;

	ASSUME(vfst >= 1000 && vfst <= 900000);
	ASSUME(vk >= -KMAX && vk <= KMAX);
	ASSUME(vn >= -NMAX && vn <= NMAX);
	ASSUME(vunit == DT_DURD || vunit == DT_DURWK || vunit == DT_DURH || vunit == DT_DURS);
	ASSUME(vlast <= 1);
	/* the runner may fix the unit and the anchoring per query, as constants
	 * (an assumed-equal symbol would not fold) */
#if defined UNIT
	ASSUME(vunit == UNIT);
# define unit	((unsigned int)UNIT)
#else
# define unit	((unsigned int)vunit)
#endif
#if defined FROMLAST
	ASSUME(vlast == FROMLAST);
# define fromlast	(FROMLAST)
#else
# define fromlast	((int)vlast)
#endif
	/* bits 1..7 = Monday..Sunday, never all seven */
	ASSUME((vskip & 0x7f) != 0x7f);
	memset(&clo, 0, sizeof(clo));
	clo.fst.d.daisy = vfst;
	dt_make_d_only(&clo.fst, DT_DAISY);
	clo.lst.d.daisy = vfst + vk;
	dt_make_d_only(&clo.lst, DT_DAISY);
	ite = mk_dur(unit, vn);
	clo.ite = &ite;
	clo.nite = 1;
	clo.ss = (vskip & 0x7f) << 1;
	lastv = vfst + vk;

	rc = vf_run(&clo, fromlast);
	CHECK(vf_contract_domain, "contract domain covers the run");
	CHECK(rc <= 0, "terminates within the bound");
	if (unit == DT_DURH || unit == DT_DURS || vn == 0) {
		CHECK(rc < 0 || nout == 0, "an increment that cannot move a date is refused or gives nothing");
		WITNESS();
		return;
	}
	CHECK(rc == 0, "a non-zero day increment is not refused");
	step = unit == DT_DURWK ? 7 * vn : vn;
	dir = step > 0 ? 1 : -1;
	if (!fromlast) {
		for (int j = 0; j <= KMAX; j++) {
			int v = vfst + j * step;
			int in = dir > 0 ? (v >= vfst && v <= lastv) : (v <= vfst && v >= lastv);
			if (in && !((clo.ss >> ref_wday(v)) & 1)) {
				ok &= expn < (int)nout && outv[expn < MAXOUT ? expn : 0] == v;
				expn++;
			}
		}
	} else {
		/* anchored at LAST: the members LAST - j*INC inside the bounds, in the direction of INC */
		for (int j = KMAX; j >= 0; j--) {
			int v = lastv - j * step;
			int in = dir > 0 ? (v >= vfst && v <= lastv) : (v <= vfst && v >= lastv);
			if (in && !((clo.ss >> ref_wday(v)) & 1)) {
				ok &= expn < (int)nout && outv[expn < MAXOUT ? expn : 0] == v;
				expn++;
			}
		}
	}
	CHECK((int)nout == expn, "nothing else, nothing twice, nothing beyond LAST");
	CHECK(ok, "exactly the members of the progression, in order");
	WITNESS();
}
#undef unit
#undef fromlast

/* month and year steps over ymd dates: the k-th element is FIRST plus k
 * increments taken in one step, end-of-month clamped */
void
h_seq_months(void)
{
	ND(i32, vy);
	ND(i32, vm);
	ND(i32, vd);
	ND(i32, vly);
	ND(i32, vlm);
	ND(i32, vld);
	ND(i32, vn);
	ND(u8, vunit);
	struct dseq_clo_s clo;
	struct dt_dtdur_s ite;
	int step, rc, fkey, lkey;
	int expn = 0;
	int ok = 1;

	ASSUME(vy >= YLO && vy <= YHI && vy > REF_MIN_YEAR + 30 && vy < REF_MAX_YEAR - 30);
	ASSUME(ref_valid_ymd(vy, vm, vd));
	ASSUME(vly >= vy - 30 && vly <= vy + 30);
	ASSUME(ref_valid_ymd(vly, vlm, vld));
	ASSUME(vn >= -NMAX && vn <= NMAX && vn != 0);
	ASSUME(vunit == DT_DURMO || vunit == DT_DURYR);
	step = vunit == DT_DURYR ? 12 * vn : vn;
	fkey = (vy * 12 + vm - 1) * 32 + vd;
	lkey = (vly * 12 + vlm - 1) * 32 + vld;
	/* no more than KMAX + 1 members */
	ASSUME(step > 0 ? (vly * 12 + vlm) - (vy * 12 + vm) <= KMAX * step
	       : (vy * 12 + vm) - (vly * 12 + vlm) <= KMAX * -step);
	memset(&clo, 0, sizeof(clo));
	clo.fst.d.ymd.y = vy, clo.fst.d.ymd.m = vm, clo.fst.d.ymd.d = vd;
	dt_make_d_only(&clo.fst, DT_YMD);
	clo.lst.d.ymd.y = vly, clo.lst.d.ymd.m = vlm, clo.lst.d.ymd.d = vld;
	dt_make_d_only(&clo.lst, DT_YMD);
	ite = mk_dur(vunit, vn);
	clo.ite = &ite;
	clo.nite = 1;

	rc = vf_run(&clo, 0);
	CHECK(vf_contract_domain, "contract domain covers the run");
	CHECK(rc == 0, "a month increment is not refused and the run ends within the bound");
	for (int k = 0; k <= KMAX; k++) {
		int ey, em, ed, ekey, in;
		ref_add_months(vy, vm, vd, k * step, &ey, &em, &ed);
		ekey = (ey * 12 + em - 1) * 32 + ed;
		in = step > 0 ? (ekey >= fkey && ekey <= lkey) : (ekey <= fkey && ekey >= lkey);
		if (in) {
			ok &= expn < (int)nout && outv[expn < MAXOUT ? expn : 0] == ekey;
			expn++;
		}
	}
	CHECK((int)nout == expn, "one element per increment up to and including LAST, none beyond");
	CHECK(ok, "the k-th element is FIRST plus k increments in one step, clamped to the month's end");
	WITNESS();
}

/* time-of-day bounds: around the clock in the direction of INC until LAST
 * is passed; a date unit between two times is refused or gives nothing */
void
h_seq_times(void)
{
	ND(u8, vh);
	ND(u8, vmi);
	ND(u8, vs);
	ND(u8, vlh);
	ND(u8, vlmi);
	ND(u8, vls);
	ND(i32, vn);
	ND(u8, vunit);
	struct dseq_clo_s clo;
	struct dt_dtdur_s ite;
	int s0, sl, step, dist, rc;
	int expn = 0;
	int ok = 1;

	ASSUME(vh < 24 && vmi < 60 && vs < 60);
	ASSUME(vlh < 24 && vlmi < 60 && vls < 60);
	ASSUME(vn >= -NMAX && vn <= NMAX && vn != 0);
	ASSUME(vunit == DT_DURH || vunit == DT_DURM || vunit == DT_DURS || vunit == DT_DURD ||
	       vunit == DT_DURMO || vunit == DT_DURYR || vunit == DT_DURWK);
	s0 = (vh * 60 + vmi) * 60 + vs;
	sl = (vlh * 60 + vlmi) * 60 + vls;
	/* equal bounds are outside: the tool goes once around the clock, the
	 * property's text can be read either way */
	ASSUME(s0 != sl);
	/* steps of a day and more are outside */
	ASSUME(vunit != DT_DURH || (vn > -24 && vn < 24));
	step = vunit == DT_DURH ? 3600 * vn : vunit == DT_DURM ? 60 * vn : vunit == DT_DURS ? vn : 0;
	dist = step > 0 ? sl - s0 : s0 - sl;
	if (dist < 0) {
		dist += 86400;
	}
	/* no more than KMAX + 1 members */
	ASSUME(step == 0 || dist <= KMAX * (step > 0 ? step : -step));
	memset(&clo, 0, sizeof(clo));
	clo.fst.t.hms.h = vh, clo.fst.t.hms.m = vmi, clo.fst.t.hms.s = vs;
	dt_make_t_only(&clo.fst, DT_HMS);
	clo.lst.t.hms.h = vlh, clo.lst.t.hms.m = vlmi, clo.lst.t.hms.s = vls;
	dt_make_t_only(&clo.lst, DT_HMS);
	ite = mk_dur(vunit, vn);
	clo.ite = &ite;
	clo.nite = 1;

	rc = vf_run(&clo, 0);
	CHECK(vf_contract_domain, "contract domain covers the run");
	if (step == 0) {
		CHECK(rc < 0 || (rc == 0 && nout == 0), "a date unit between two times is refused or gives nothing, never an endless run");
		WITNESS();
		return;
	}
	CHECK(rc == 0, "a time increment is not refused and the run ends once LAST is passed");
	for (int k = 0; k <= KMAX; k++) {
		int off = k * (step > 0 ? step : -step);
		if (off <= dist) {
			/* off <= dist < 24 h: at most one wrap */
			int v = s0 + k * step;
			if (v < 0) {
				v += 86400;
			} else if (v >= 86400) {
				v -= 86400;
			}
			ok &= expn < (int)nout && outv[expn < MAXOUT ? expn : 0] == v;
			expn++;
		}
	}
	CHECK((int)nout == expn, "nothing beyond LAST, nothing twice");
	CHECK(ok, "exactly FIRST + k*INC around the clock, in order");
	WITNESS();
}
#endif	/* PART_CONTRACT */
