/* C16 -- dateround lands on the nearest requested target and is idempotent
 * unit under test: src/dround.c (textually, main renamed): tround_tdur,
 * tround_tdur_cocl, dround_ddur, sxround_dur_cocl, dt_round; linked with
 * the real lib units */
#include "vf.h"
#include "ref.h"
#define main	dround_main
#include "dround.c"
#undef main
#include "vfh_cal.h"
#include "vfh_dt.h"

#if !defined UNIT
# define UNIT	DT_DURM
#endif
#if !defined REP
# define REP	R_YMD
#endif
#if !defined TBITS
# define TBITS	36
#endif

static int
unit_mod(void)
{
	return UNIT == DT_DURH ? 24 : 60;
}

static int
unit_span(void)
{
	/* seconds between two times of day that share the target field and
	 * all finer fields */
	return UNIT == DT_DURH ? 86400 : UNIT == DT_DURM ? 3600 : 60;
}

/* (1) rounding to a field value (hour, minute or second VALUE) */
void
h_tround_value(void)
{
	ND_TOD(h, m, s, vt);
	ND(u8, vtgt);
	ND(u8, vdown);
	ND(u8, vnext);
	struct dt_t_s t, r;
	struct dt_dtdur_s dur;
	int T, R, fld, fine_ok;

	ASSUME(vtgt < unit_mod());
	ASSUME(vdown <= 1 && vnext <= 1);
	memset(&t, 0, sizeof(t));
	t.typ = DT_HMS;
	t.hms.h = h, t.hms.m = m, t.hms.s = s;
	memset(&dur, 0, sizeof(dur));
	dur.durtyp = (dt_dtdurtyp_t)UNIT;
	dur.dv = vtgt;
	dur.neg = vdown;
	r = tround_tdur(t, dur, vnext);
	T = h * 3600 + m * 60 + s;
	R = r.carry * 86400 + r.hms.h * 3600 + r.hms.m * 60 + r.hms.s;
	fld = UNIT == DT_DURH ? r.hms.h : UNIT == DT_DURM ? r.hms.m : r.hms.s;
	fine_ok = UNIT == DT_DURH ? (r.hms.m == m && r.hms.s == s) :
		UNIT == DT_DURM ? r.hms.s == s : 1;
	CHECK(r.hms.h <= 23 && r.hms.m <= 59 && r.hms.s <= 59, "a valid time of day");
	CHECK(fld == vtgt, "the named field equals the target");
	CHECK(fine_ok, "every finer field keeps the input's value");
	if (!vdown) {
		CHECK(vnext ? (R > T && R - T <= unit_span()) : (R >= T && R - T < unit_span()),
		      "nearest such time at or after the input (strictly after with --next)");
	} else {
		CHECK(vnext ? (R < T && T - R <= unit_span()) : (R <= T && T - R < unit_span()),
		      "nearest such time at or before the input (strictly before with --next)");
	}
	WITNESS();
}

/* (2) rounding the time of day to a co-class: multiples of N seconds, N | 86400 */
void
h_tround_cocl(void)
{
	ND_TOD(h, m, s, vt);
#if defined NSEC
	/* the divisor is enumerated by the runner (all 96 divisors of 86400 in
	 * the thorough tier): a symbolic divisor costs 350 s */
	const int vN = NSEC;
#else
	ND(i32, vN);
#endif
	ND(u8, vdown);
	ND(u8, vnext);
	struct dt_t_s t, r;
	struct dt_dtdur_s dur;
	int T, R;

	ASSUME(vN >= 1 && vN <= 86400 && 86400 % vN == 0);
	ASSUME(vdown <= 1 && vnext <= 1);
	memset(&t, 0, sizeof(t));
	t.typ = DT_HMS;
	t.hms.h = h, t.hms.m = m, t.hms.s = s;
	memset(&dur, 0, sizeof(dur));
	dur.durtyp = DT_DURS;
	dur.cocl = 1;
	dur.dv = vN;
	dur.neg = vdown;
	r = tround_tdur_cocl(t, dur, vnext);
	T = h * 3600 + m * 60 + s;
	R = r.carry * 86400 + r.hms.h * 3600 + r.hms.m * 60 + r.hms.s;
	CHECK(r.hms.h <= 23 && r.hms.m <= 59 && r.hms.s <= 59, "a valid time of day");
	CHECK(R % vN == 0, "a multiple of N seconds");
	if (!vdown) {
		CHECK(vnext ? (R > T && R - T <= vN) : (R >= T && R - T < vN), "nearest multiple at/after the input");
	} else {
		CHECK(vnext ? (R < T && T - R <= vN) : (R <= T && T - R < vN), "nearest multiple at/before the input");
	}
	WITNESS();
}

/* (3) rounding an epoch value to a co-class, negative epochs included */
void
h_sxround(void)
{
	ND(i64, vt);
#if defined NSEC
	const int vN = NSEC;
#else
	ND(i32, vN);
#endif
	ND(u8, vdown);
	ND(u8, vnext);
	struct dt_dtdur_s dur;
	i64 R;

	ASSUME(vN >= 1 && vN <= 86400 && 86400 % vN == 0);
	ASSUME(vdown <= 1 && vnext <= 1);
	ASSUME(vt > -(1LL << TBITS) && vt < (1LL << TBITS));
#if defined KF_ONLY_sxround_negative
	ASSUME(vt < 0);
#elif defined KF_EXCL_sxround_negative
	ASSUME(vt >= 0);
#endif
	memset(&dur, 0, sizeof(dur));
	dur.durtyp = DT_DURS;
	dur.cocl = 1;
	dur.dv = vN;
	dur.neg = vdown;
	R = (i64)sxround_dur_cocl((dt_sexy_t)vt, dur, vnext);
	CHECK(R % vN == 0, "a multiple of N seconds on the epoch scale");
	if (!vdown) {
		CHECK(vnext ? (R > vt && R - vt <= vN) : (R >= vt && R - vt < vN), "nearest multiple at/after the input");
	} else {
		CHECK(vnext ? (R < vt && vt - R <= vN) : (R <= vt && vt - R < vN), "nearest multiple at/before the input");
	}
	WITNESS();
}

/* (4a) rounding a ymd date to a day of the month */
void
h_dround_dom(void)
{
	ND_DAY(r);
	ND(u8, vtgt);
	ND(u8, vdown);
	ND(u8, vnext);
	struct dt_d_s x = mk_rep(R_YMD, r);
	struct dt_d_s y;
	struct dt_ddur_s dur;
	int rn, ml;

	ASSUME(vtgt >= 1 && vtgt <= 31 && vdown <= 1 && vnext <= 1);
	ASSUME(r.n > 62 && r.n < REF_MAX_DAY - 62);
	dur = dt_make_ddur(DT_DURD, vdown ? -(int)vtgt : (int)vtgt);
	y = dround_ddur(x, dur, vnext);
	rn = rep_days(y);
	CHECK(rn > 0, "a valid date");
	ml = ref_mdays(y.ymd.y, y.ymd.m);
	CHECK((int)y.ymd.d == (vtgt > ml ? ml : vtgt), "day of month is the target, or the month's last day if it does not exist");
	/* nearest on the requested side: candidates are one per month */
#if defined KF_ONLY_dround_next_ultimo
	ASSUME(vnext && (int)vtgt > ref_mdays(r.y, r.m) && r.d == ref_mdays(r.y, r.m));
#elif defined KF_EXCL_dround_next_ultimo
	ASSUME(!(vnext && (int)vtgt > ref_mdays(r.y, r.m) && r.d == ref_mdays(r.y, r.m)));
#endif
	if (!vdown) {
		CHECK(vnext ? (rn > r.n && rn - r.n <= 31) : (rn >= r.n && rn - r.n < 31), "at/after the input, within a month");
	} else {
		CHECK(vnext ? (rn < r.n && r.n - rn <= 31) : (rn <= r.n && r.n - rn < 31), "at/before the input, within a month");
	}
	WITNESS();
}

/* (4b) rounding to a weekday */
void
h_dround_wday(void)
{
	ND_DAY(r);
	ND(u8, vtgt);
	ND(u8, vdown);
	ND(u8, vnext);
	struct dt_d_s x = mk_rep(REP, r);
	struct dt_d_s y;
	struct dt_ddur_s dur;
	int rn;

	ASSUME(vtgt >= 1 && vtgt <= 7 && vdown <= 1 && vnext <= 1);
	ASSUME(r.n > 8 && r.n < REF_MAX_DAY - 8);
	memset(&dur, 0, sizeof(dur));
	dur.durtyp = DT_DURYMCW;
	dur.neg = vdown;
	dur.ymcw.w = vtgt;
	y = dround_ddur(x, dur, vnext);
	rn = rep_days(y);
	CHECK(rn > 0 && y.typ == x.typ, "a valid date in the same calendar");
	CHECK(ref_wday(rn) == vtgt, "weekday equals the target");
	if (!vdown) {
		CHECK(vnext ? (rn > r.n && rn - r.n <= 7) : (rn >= r.n && rn - r.n < 7), "nearest such day at/after the input");
	} else {
		CHECK(vnext ? (rn < r.n && r.n - rn <= 7) : (rn <= r.n && r.n - rn < 7), "nearest such day at/before the input");
	}
	WITNESS();
}

/* (4c) rounding a ymd date to a month */
void
h_dround_mon(void)
{
	ND_DAY(r);
	ND(u8, vtgt);
	ND(u8, vdown);
	ND(u8, vnext);
	struct dt_d_s x = mk_rep(R_YMD, r);
	struct dt_d_s y;
	struct dt_ddur_s dur;
	int ml, ey;

	ASSUME(vtgt >= 1 && vtgt <= 12 && vdown <= 1 && vnext <= 1);
	ASSUME(r.y > REF_MIN_YEAR && r.y < REF_MAX_YEAR);
	memset(&dur, 0, sizeof(dur));
	dur.durtyp = DT_DURYMD;
	dur.neg = vdown;
	dur.ymd.m = vtgt;
	y = dround_ddur(x, dur, vnext);
	CHECK(rep_days(y) > 0, "a valid date");
	CHECK((int)y.ymd.m == vtgt, "month equals the target");
	ml = ref_mdays(y.ymd.y, y.ymd.m);
	CHECK((int)y.ymd.d == (r.d > ml ? ml : r.d), "day of month kept, or the month's last day");
	/* the year: same year if the target month lies on the requested side */
	if (!vdown) {
		ey = (vtgt > r.m || (vtgt == r.m && !vnext)) ? r.y : r.y + 1;
	} else {
		ey = (vtgt < r.m || (vtgt == r.m && !vnext)) ? r.y : r.y - 1;
	}
	CHECK((int)y.ymd.y == ey, "nearest such month on the requested side");
	WITNESS();
}

/* (4d) rounding an ISO week date to a week number that every year has */
void
h_dround_week(void)
{
	ND_DAY(r);
	ND(u8, vtgt);
	ND(u8, vdown);
	ND(u8, vnext);
	struct dt_d_s x = mk_rep(R_YWD, r);
	struct dt_d_s y;
	struct dt_ddur_s dur;
	int ey;

	/* week 53 does not exist in every year; the statement names no replacement for it: outside */
	ASSUME(vtgt >= 1 && vtgt <= 52 && vdown <= 1 && vnext <= 1);
	ASSUME(r.iy > REF_MIN_YEAR && r.iy < REF_MAX_YEAR);
	dur = dt_make_ddur(DT_DURWK, vdown ? -(int)vtgt : (int)vtgt);
	y = dround_ddur(x, dur, vnext);
	CHECK(y.typ == DT_YWD, "still an ISO week date");
	CHECK((int)y.ywd.c == vtgt, "week number equals the target");
	CHECK((int)y.ywd.w == r.wd, "weekday kept");
	if (!vdown) {
		ey = (vtgt > r.iw || (vtgt == r.iw && !vnext)) ? r.iy : r.iy + 1;
	} else {
		ey = (vtgt < r.iw || (vtgt == r.iw && !vnext)) ? r.iy : r.iy - 1;
	}
	CHECK((int)y.ywd.y == ey, "nearest such week on the requested side");
	WITNESS();
}

/* (4e) rounding a business-day-of-month date to a business-day index that
 * every month has (every month has at least 20 Monday-to-Friday days) */
static inline int
c16_B(int t)
{
	int r = t % 7;
	return 5 * (t / 7) + (r > 5 ? 5 : r);
}

void
h_dround_bday(void)
{
	ND(i32, vy);
	ND(i32, vm);
	ND(i32, vb);
	ND(u8, vtgt);
	ND(u8, vdown);
	ND(u8, vnext);
	struct dt_d_s x, y;
	struct dt_ddur_s dur;
	int first, last, nb, ey, em;

	ASSUME(vy >= YLO && vy <= YHI && vm >= 1 && vm <= 12);
	ASSUME(vy > REF_MIN_YEAR && vy < REF_MAX_YEAR);
	first = ref_days(vy, vm, 1);
	last = ref_days(vy, vm, ref_mdays(vy, vm));
	nb = c16_B(last) - c16_B(first - 1);
	ASSUME(vb >= 1 && vb <= nb);
	/* indices above 20 do not exist in every month; the statement names no replacement: outside */
	ASSUME(vtgt >= 1 && vtgt <= 20 && vdown <= 1 && vnext <= 1);
	memset(&x, 0, sizeof(x));
	x.typ = DT_BIZDA;
	x.bizda.y = vy, x.bizda.m = vm, x.bizda.bd = vb;
	dur = dt_make_ddur(DT_DURBD, vdown ? -(int)vtgt : (int)vtgt);
	y = dround_ddur(x, dur, vnext);
	CHECK(y.typ == DT_BIZDA, "still a business-day date");
	CHECK((int)y.bizda.bd == vtgt, "business-day index equals the target");
	ey = vy, em = vm;
	if (!vdown) {
		if (!(vtgt > vb || (vtgt == vb && !vnext))) {
			em = vm < 12 ? vm + 1 : 1;
			ey = vm < 12 ? vy : vy + 1;
		}
	} else {
		if (!(vtgt < vb || (vtgt == vb && !vnext))) {
			em = vm > 1 ? vm - 1 : 12;
			ey = vm > 1 ? vy : vy - 1;
		}
	}
	CHECK((int)y.bizda.y == ey && (int)y.bizda.m == em, "nearest such business day on the requested side");
	WITNESS();
}

/* (4f) co-class rounding of a ymd date to a multiple of N months (N a
 * divisor of 12, so /3mo are the quarters and /12mo the years): the first
 * day of the nearest such month on the requested side, a date already
 * there stays */
#if !defined NMON
# define NMON	3
#endif
void
h_dround_cocl_mon(void)
{
	ND_DAY(r);
	ND(u8, vdown);
	struct dt_d_s x = mk_rep(R_YMD, r);
	struct dt_d_s y;
	struct dt_ddur_s dur;
	int ym, of, eym;

	ASSUME(vdown <= 1);
	ASSUME(r.y > REF_MIN_YEAR && r.y < REF_MAX_YEAR);
	dur = dt_make_ddur(DT_DURMO, NMON);
	dur.cocl = 1;
	dur.neg = vdown;
	y = dround_ddur_cocl(x, dur, false);
	ym = r.y * 12 + r.m - 1;
	of = (r.m - 1) % NMON;
	if (vdown) {
		eym = ym - of;
	} else {
		eym = (of == 0 && r.d == 1) ? ym : ym - of + NMON;
	}
	CHECK(y.typ == DT_YMD && (int)y.ymd.d == 1, "finer field at its first value");
	CHECK((int)y.ymd.y == eym / 12 && (int)y.ymd.m == eym % 12 + 1, "nearest multiple of N months on the requested side");
	CHECK(((int)y.ymd.m - 1) % NMON == 0, "a multiple of N months");
	{
		struct dt_d_s z = dround_ddur_cocl(y, dur, false);
		CHECK(z.u == y.u, "rounding twice equals rounding once");
	}
	WITNESS();
}

/* (5) idempotence through dt_round: rounding twice equals rounding once */
void
h_idem(void)
{
	ND_DAY(r);
	ND_TOD(h, m, s, vt);
	ND(u8, vtgt);
	ND(u8, vdown);
	struct dt_dt_s x = mk_dt(R_YMD, r, h, m, s);
	struct dt_dtdur_s dur;
	struct dt_dt_s y, z;

	ASSUME(vtgt < unit_mod() && vdown <= 1);
	ASSUME(r.n > 2 && r.n < REF_MAX_DAY - 2);
	memset(&dur, 0, sizeof(dur));
	dur.durtyp = (dt_dtdurtyp_t)UNIT;
	dur.dv = vtgt;
	dur.neg = vdown;
	y = dt_round(x, dur, false);
	z = dt_round(y, dur, false);
	CHECK(y.d.u == z.d.u && y.t.hms.h == z.t.hms.h && y.t.hms.m == z.t.hms.m && y.t.hms.s == z.t.hms.s,
	      "rounding twice equals rounding once");
	/* and the day carry out of the time part lands on the adjacent day */
	{
		i64 d = ref_delta(r.n, h, m, s, rep_days(y.d), y.t.hms.h, y.t.hms.m, y.t.hms.s);
		CHECK(vdown ? (d <= 0 && -d < unit_span()) : (d >= 0 && d < unit_span()),
		      "date-time result is the nearest on the requested side across midnight");
	}
	WITNESS();
}
