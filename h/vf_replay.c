/* replay driver: linked (textually, via -include order) with one harness.
 * usage: replay <file>   where file has lines name=value or name[i]=value */
#include <stdio.h>
#include <stdlib.h>
#include <string.h>

int vf_failed;
int vf_witnessed;

static struct { char name[64]; int idx; long long v; } vf_tab[4096];
static int vf_n;

long long
vf_replay_get(const char *name, int idx)
{
	for (int i = 0; i < vf_n; i++) {
		if (vf_tab[i].idx == idx && !strcmp(vf_tab[i].name, name)) {
			return vf_tab[i].v;
		}
	}
	printf("REPLAY-MISSING %s[%d] (using 0)\n", name, idx);
	return 0;
}

extern void VF_ENTRY(void);

int
main(int argc, char *argv[])
{
	char line[256];
	FILE *f;

	if (argc < 2 || (f = fopen(argv[1], "r")) == NULL) {
		fprintf(stderr, "usage: replay FILE\n");
		return 2;
	}
	while (fgets(line, sizeof(line), f) && vf_n < 4096) {
		char *eq = strchr(line, '=');
		char *br;
		if (eq == NULL || line[0] == '#') {
			continue;
		}
		*eq = '\0';
		vf_tab[vf_n].idx = -1;
		if ((br = strchr(line, '[')) != NULL) {
			*br = '\0';
			vf_tab[vf_n].idx = atoi(br + 1);
		}
		snprintf(vf_tab[vf_n].name, sizeof(vf_tab[vf_n].name), "%s", line);
		vf_tab[vf_n].v = strtoll(eq + 1, NULL, 0);
		vf_n++;
	}
	fclose(f);
	VF_ENTRY();
	if (vf_failed) {
		printf("REPLAY-RESULT violated\n");
		return 1;
	}
	printf("REPLAY-RESULT %s\n", vf_witnessed ? "holds" : "holds-nowitness");
	return 0;
}
