/* C01 -- conversions agree with the proleptic Gregorian / ISO 8601 calendar
 * unit under test: lib/date-core.c (textually includes yd.c ymd.c ymcw.c
 * ywd.c bizda.c daisy.c ummulqura.c date-core-strpf.c fmt-special.c) */
#include "vf.h"
#include "ref.h"
#include "date-core.c"
#include "vfh_cal.h"

#if !defined SRC
# define SRC	R_YMD
#endif
#if !defined TGT
# define TGT	R_DAISY
#endif

/* year lemmas: year fully symbolic over the whole range */
void
h_year_lemmas(void)
{
	ND(i32, vy);
	ASSUME(vy >= YLO && vy <= YHI);

	CHECK((int)__jan00_daisy(vy) == ref_jan0(vy), "jan00 daisy");
	CHECK((int)__get_jan01_wday(vy) == ref_wday(ref_jan0(vy) + 1), "weekday of Jan 1");
	CHECK(__leapp(vy) == (bool)ref_leap(vy), "leap year rule");
	CHECK((int)__get_isowk(vy) == ref_isoweeks(vy), "weeks in ISO year");
	CHECK((int)__get_ydays(vy) == ref_ydays(vy), "days in year");
	{
		/* __get_z31wk: ISO week number (of this or the next ISO year)
		 * in which Dec 31 falls is 53 or 52/1; the code uses it as
		 * the first week that may already belong to next year */
		int z31 = ref_jan0(vy) + ref_ydays(vy);
		int thu = z31 - ref_wday(z31) + 4;
		int wk = thu > z31 ? 0 : (thu - (ref_jan0(vy) + 1)) / 7 + 1;
		if (wk == 53) {
			CHECK(__get_z31wk(vy) == 53, "z31wk: Dec 31 in week 53");
		} else {
			CHECK(__get_z31wk(vy) == 52 || __get_z31wk(vy) == 53, "z31wk range");
		}
	}
	WITNESS();
}

/* month lemmas */
void
h_month_lemmas(void)
{
	ND(i32, vy);
	ND(i32, vm);
	ASSUME(vy >= YLO && vy <= YHI);
	ASSUME(vm >= 1 && vm <= 12);

	CHECK((int)__get_mdays(vy, vm) == ref_mdays(vy, vm), "days in month");
	CHECK((int)__get_m01_wday(vy, vm) == ref_wday(ref_days(vy, vm, 1)), "weekday of the 1st");
	CHECK((int)__md_get_yday(vy, vm, 0) == ref_cum(vy, vm), "cumulative days before month");
	WITNESS();
}

/* the central obligation: dt_dconv(TGT, value of day in SRC) is the
 * reference's TGT value of the same day */
void
h_dconv(void)
{
	ND_DAY(r);
	struct dt_d_s s = mk_rep(SRC, r);
	struct dt_d_s t = dt_dconv((dt_dtyp_t)TGT, s);

	CHECK(is_rep(TGT, t, r), "dt_dconv yields the calendar's value for the day");
	WITNESS();
}

/* kernels called directly (what the tools' other paths use) */
void
h_kernels(void)
{
	ND_DAY(r);
	struct dt_d_s s = mk_rep(SRC, r);
	struct dt_d_s t;

	memset(&t, 0, sizeof(t));
#if SRC == R_DAISY
	t.typ = DT_YMD, t.ymd = __daisy_to_ymd(s.daisy);
	CHECK(is_rep(R_YMD, t, r), "__daisy_to_ymd");
	t.typ = DT_YMCW, t.ymcw = __daisy_to_ymcw(s.daisy);
	CHECK(is_rep(R_YMCW, t, r), "__daisy_to_ymcw");
	t.typ = DT_YWD, t.ywd = __daisy_to_ywd(s.daisy);
	CHECK(is_rep(R_YWD, t, r), "__daisy_to_ywd");
	t.typ = DT_YD, t.yd = __daisy_to_yd(s.daisy);
	CHECK(is_rep(R_YD, t, r), "__daisy_to_yd");
	CHECK((int)__daisy_get_year(s.daisy) == r.y, "__daisy_get_year");
	CHECK((int)__daisy_get_yday(s.daisy) == r.doy, "__daisy_get_yday");
	CHECK((int)__daisy_get_wday(s.daisy) == r.wd, "__daisy_get_wday");
#elif SRC == R_YMD
	CHECK((int)__ymd_to_daisy(s.ymd) == r.n, "__ymd_to_daisy");
	t.typ = DT_YMCW, t.ymcw = __ymd_to_ymcw(s.ymd);
	CHECK(is_rep(R_YMCW, t, r), "__ymd_to_ymcw");
	t.typ = DT_YWD, t.ywd = __ymd_to_ywd(s.ymd);
	CHECK(is_rep(R_YWD, t, r), "__ymd_to_ywd");
	t.typ = DT_YD, t.yd = __ymd_to_yd(s.ymd);
	CHECK(is_rep(R_YD, t, r), "__ymd_to_yd");
	CHECK((int)__ymd_get_wday(s.ymd) == r.wd, "__ymd_get_wday");
	CHECK((int)__ymd_get_yday(s.ymd) == r.doy, "__ymd_get_yday");
#elif SRC == R_YWD
	CHECK((int)__ywd_to_daisy(s.ywd) == r.n, "__ywd_to_daisy");
	t.typ = DT_YMD, t.ymd = __ywd_to_ymd(s.ywd);
	CHECK(is_rep(R_YMD, t, r), "__ywd_to_ymd");
	t.typ = DT_YMCW, t.ymcw = __ywd_to_ymcw(s.ywd);
	CHECK(is_rep(R_YMCW, t, r), "__ywd_to_ymcw");
	t.typ = DT_YD, t.yd = __ywd_to_yd(s.ywd);
	CHECK(is_rep(R_YD, t, r), "__ywd_to_yd");
	CHECK((int)__ywd_get_year(s.ywd) == r.y, "__ywd_get_year (Gregorian year of an ISO week date)");
	CHECK((int)__ywd_get_mon(s.ywd) == r.m || r.y != r.iy, "__ywd_get_mon");
#elif SRC == R_YD
	CHECK((int)__yd_to_daisy(s.yd) == r.n, "__yd_to_daisy");
	t.typ = DT_YMD, t.ymd = __yd_to_ymd(s.yd);
	CHECK(is_rep(R_YMD, t, r), "__yd_to_ymd");
	t.typ = DT_YMCW, t.ymcw = __yd_to_ymcw(s.yd);
	CHECK(is_rep(R_YMCW, t, r), "__yd_to_ymcw");
	t.typ = DT_YWD, t.ywd = __yd_to_ywd(s.yd);
	CHECK(is_rep(R_YWD, t, r), "__yd_to_ywd");
	CHECK((int)__yd_get_wday(s.yd) == r.wd, "__yd_get_wday");
#elif SRC == R_YMCW
	CHECK((int)__ymcw_to_daisy(s.ymcw) == r.n, "__ymcw_to_daisy");
	t.typ = DT_YMD, t.ymd = __ymcw_to_ymd(s.ymcw);
	CHECK(is_rep(R_YMD, t, r), "__ymcw_to_ymd");
	t.typ = DT_YWD, t.ywd = __ymcw_to_ywd(s.ymcw);
	CHECK(is_rep(R_YWD, t, r), "__ymcw_to_ywd");
	t.typ = DT_YD, t.yd = __ymcw_to_yd(s.ymcw);
	CHECK(is_rep(R_YD, t, r), "__ymcw_to_yd");
	CHECK((int)__ymcw_get_mday(s.ymcw) == r.d, "__ymcw_get_mday");
#endif
	WITNESS();
}

/* public getters, whatever representation the day is held in */
void
h_getters(void)
{
	ND_DAY(r);
	struct dt_d_s s = mk_rep(SRC, r);

#if SRC != R_YD
	CHECK((int)dt_get_wday(s) == r.wd, "dt_get_wday");
	/* dt_get_yday has no case for yd values: they never leave the library */
	/* for ywd the getter is relative to the ISO year by design; for ymcw
	 * it is documented as the n-th such weekday of the year */
	CHECK((int)dt_get_yday(s) == (SRC == R_YWD ? r.n - ref_jan0(r.iy) :
				      SRC == R_YMCW ? ref_wk_abs(r.doy) : r.doy),
	      "dt_get_yday");
#endif
#if SRC == R_YMD || SRC == R_YMCW || SRC == R_DAISY
	CHECK(dt_get_year(s) == r.y, "dt_get_year");
	CHECK(dt_get_mon(s) == r.m, "dt_get_mon");
	CHECK(dt_get_mday(s) == r.d, "dt_get_mday");
	CHECK(dt_get_wcnt_mon(s) == ref_mcount(r.d), "dt_get_wcnt_mon");
#endif
#if SRC == R_YMD || SRC == R_YMCW
	CHECK(dt_get_quarter(s) == ref_quarter(r.m), "dt_get_quarter");
#endif
#if SRC == R_YMD || SRC == R_DAISY || SRC == R_YD
	CHECK(dt_get_wcnt_year(s, YWD_SUNWK_CNT) == ref_wk_sun(r.y, r.doy), "%U week count");
	CHECK(dt_get_wcnt_year(s, YWD_MONWK_CNT) == ref_wk_mon(r.y, r.doy), "%W week count");
	CHECK(dt_get_wcnt_year(s, YWD_ISOWK_CNT) == r.iw, "%V week count");
	CHECK(dt_get_wcnt_year(s, YWD_ABSWK_CNT) == ref_wk_abs(r.doy), "%C week count");
#endif
#if SRC == R_YWD
	CHECK(dt_get_wcnt_year(s, YWD_ISOWK_CNT) == r.iw, "%V week count (ywd)");
#endif
	WITNESS();
}

/* Unix seconds: day -> epoch, through the tools' path dt_dtconv(SEXY) is in
 * C11; here the day-number base */
void
h_unix_base(void)
{
	ND_DAY(r);
	/* 1970-01-01 is day 134775 by the reference */
	CHECK(ref_days(1970, 1, 1) == REF_UNIX_BASE, "unix base by reference");
	(void)r;
	WITNESS();
}
