/* C10 -- the escape-sequence decoder of the tools' -e option
 * unit under test: src/dt-io.c (textually): dt_io_unescape
 * the string lives in a heap object of exactly its size */
#include "vf.h"
#include <stdlib.h>
#include <string.h>
#include "dt-io.c"

/* the tools define their name for error messages */
const char *prog = "vf";

#if !defined SLEN
# define SLEN	3
#endif

void
h_unescape(void)
{
	ND_ARR(u8, vs, SLEN ? SLEN : 1);
	char *s = malloc(SLEN + 1);
	unsigned int n = 0;

#if VF_REPLAY
	if (s == NULL) {
		return;
	}
#else
	__CPROVER_assume(s != NULL);
#endif
	for (unsigned int i = 0; i < SLEN; i++) {
		ASSUME(vs[i] != 0);
		s[i] = (char)vs[i];
	}
	s[SLEN] = '\0';
	dt_io_unescape(s);
	/* still a string inside its object, never longer than before */
	for (unsigned int i = 0; i <= SLEN; i++) {
		if (s[i] == '\0') {
			break;
		}
		n++;
	}
	CHECK(n <= SLEN, "the decoded string ends inside the original object");
	WITNESS();
}
