/* C10 -- parsers and formatters are memory-safe and total on arbitrary input
 * units under test: lib/token.c (__tok_spec), lib/strops.c, lib/date-core.c
 * (dt_strpd, dt_strfd, __strpd_card, __strfd_card, __strpd_std), lib/dt-core.c
 * (dt_strpdt, dt_strfdt, dt_strpdtdur), lib/time-core.c (dt_strpt, dt_strft)
 * strings live in heap objects of EXACT size so that any access past the
 * terminator is a bounds violation */
#include "vf.h"
#include <stdlib.h>
#include <string.h>
#include "leap-seconds.def"
#if defined VF_CBMC
/* the clock: an arbitrary reading (only %y/%g without --base consult it) */
# define gettimeofday	vf_gettimeofday
#endif
#include "dt-core.c"
#if defined VF_CBMC
i64 nondet_i64(void);
int
vf_gettimeofday(struct timeval *tv, void *tz)
{
	i64 s = nondet_i64();
	__CPROVER_assume(s >= 0 && s < 4102444800LL);
	tv->tv_sec = s;
	tv->tv_usec = 0;
	(void)tz;
	return 0;
}
#endif

#if !defined FLEN
# define FLEN	2	/* bytes of format before the terminator */
#endif
#if !defined ILEN
# define ILEN	3	/* bytes of input before the terminator */
#endif
#if !defined CFMT
# define CFMT	"%F"
#endif
#if !defined BSZ
# define BSZ	8	/* output buffer size */
#endif

static char*
mk_str(const u8 *src, unsigned int len)
{
	char *p = malloc(len + 1);
#if !VF_REPLAY
	__CPROVER_assume(p != NULL);
#endif
	for (unsigned int i = 0; i < len; i++) {
		p[i] = (char)src[i];
	}
	p[len] = '\0';
	return p;
}

/* (T) the specifier tokeniser on every format string */
void
h_tok(void)
{
	ND_ARR(u8, vf, FLEN ? FLEN : 1);
	ND(u8, voff);
	char *fmt;
	const char *ep = NULL;
	struct dt_spec_s sp;

	for (unsigned int i = 0; i < FLEN; i++) {
		ASSUME(vf[i] != 0);
	}
#if defined PFX
	/* concrete modifier prefix after the percent sign (the six `goto next'
	 * back-edges make a fully symbolic prefix explode); the byte after it
	 * is symbolic but not a modifier, the rest is arbitrary */
	{
		static const char pfx[] = PFX;
		vf[0] = '%';
		for (unsigned int i = 0; i + 1 < sizeof(pfx) && i + 1 < FLEN; i++) {
			vf[i + 1] = (u8)pfx[i];
		}
		if (sizeof(pfx) < FLEN) {
			u8 c = vf[sizeof(pfx)];
			ASSUME(c != '_' && c != 'O' && c != '0' && c != ' ' && c != '-' && c != 'r');
		}
	}
#else
	/* formats that do not start a specifier here */
	ASSUME(FLEN < 1 || vf[0] != '%');
#endif
	fmt = mk_str(vf, FLEN);
#if defined PFX
	ASSUME(voff == 0);
#else
	ASSUME(voff < FLEN || (FLEN == 0 && voff == 0));
#endif
	sp = __tok_spec(fmt + voff, &ep);
	CHECK(ep > fmt + voff || FLEN == 0, "the tokeniser makes progress");
	CHECK(ep <= fmt + FLEN, "and does not step over the terminator");
	(void)sp;
	WITNESS();
}

/* (D) the date parser driver on arbitrary format and input */
void
h_strpd(void)
{
	ND_ARR(u8, vf, FLEN ? FLEN : 1);
	ND_ARR(u8, vi, ILEN ? ILEN : 1);
	char *fmt, *inp;
	char *ep = NULL;
	struct dt_d_s d;

	for (unsigned int i = 0; i < FLEN; i++) {
		ASSUME(vf[i] != 0);
	}
	for (unsigned int i = 0; i < ILEN; i++) {
		ASSUME(vi[i] != 0);
	}
	/* the format is concrete (enumerated by the runner): a symbolic format
	 * byte re-enters the tokeniser's modifier loops */
	{
		static const char cf[] = CFMT;
		for (unsigned int i = 0; i < FLEN; i++) {
			vf[i] = (u8)cf[i];
		}
	}
	fmt = mk_str(vf, FLEN);
	inp = mk_str(vi, ILEN);
	d = dt_strpd(inp, fmt, &ep);
	CHECK(ep >= inp && ep <= inp + ILEN, "end pointer inside the input");
	(void)d;
	WITNESS();
}

/* (F) the date formatter driver: arbitrary format, value, buffer size */
void
h_strfd(void)
{
	ND_ARR(u8, vf, FLEN ? FLEN : 1);
	ND(u32, vu);
	ND(u8, vtyp);
	char *fmt;
	char *buf;
	struct dt_d_s d;
	size_t n;

	for (unsigned int i = 0; i < FLEN; i++) {
		ASSUME(vf[i] != 0);
	}
	{
		static const char cf[] = CFMT;
		for (unsigned int i = 0; i < FLEN; i++) {
			vf[i] = (u8)cf[i];
		}
	}
	fmt = mk_str(vf, FLEN);
	buf = malloc(BSZ);
#if !VF_REPLAY
	__CPROVER_assume(buf != NULL);
#endif
	memset(&d, 0, sizeof(d));
	ASSUME(vtyp == DT_YMD || vtyp == DT_YMCW || vtyp == DT_YWD || vtyp == DT_DAISY);
	d.typ = vtyp;
	d.u = vu;
	/* a value as the parser or the converters produce it */
	if (vtyp == DT_YMD) {
		ASSUME(d.ymd.y >= 1601 && d.ymd.y <= 4095 && d.ymd.m >= 1 && d.ymd.m <= 12 && d.ymd.d >= 1 && d.ymd.d <= 31);
	} else if (vtyp == DT_YMCW) {
		ASSUME(d.ymcw.y >= 1601 && d.ymcw.y <= 4095 && d.ymcw.m >= 1 && d.ymcw.m <= 12 && d.ymcw.c >= 1 && d.ymcw.c <= 5 && d.ymcw.w >= 1);
	} else if (vtyp == DT_YWD) {
		ASSUME(d.ywd.y >= 1601 && d.ywd.y <= 4095 && d.ywd.c >= 1 && d.ywd.c <= 53 && d.ywd.w >= 1 &&
		       d.ywd.hang >= -3 && d.ywd.hang <= 3);
	} else if (vtyp == DT_DAISY) {
		ASSUME(d.daisy >= 1 && d.daisy <= 910674);
	}
	n = dt_strfd(buf, BSZ, fmt, d);
	CHECK(n <= BSZ, "never reports more output than the buffer holds");
	WITNESS();
}

/* (PT) the time parser driver on enumerated formats and arbitrary input */
void
h_strpt(void)
{
	ND_ARR(u8, vi, ILEN ? ILEN : 1);
	static const char cf[] = CFMT;
	char *fmt, *inp;
	char *ep = NULL;
	struct dt_t_s t;

	for (unsigned int i = 0; i < ILEN; i++) {
		ASSUME(vi[i] != 0);
	}
	fmt = mk_str((const u8*)cf, FLEN);
	inp = mk_str(vi, ILEN);
	t = dt_strpt(inp, fmt, &ep);
	CHECK(ep >= inp && ep <= inp + ILEN, "end pointer inside the input");
	(void)t;
	WITNESS();
}

/* (FT) the time formatter driver: enumerated format, any time, small buffers */
void
h_strft(void)
{
	ND(u8, vh);
	ND(u8, vm);
	ND(u8, vs);
	ND(u32, vns);
	static const char cf[] = CFMT;
	char *fmt, *buf;
	struct dt_t_s t;
	size_t n;

	/* as the parser produces them: 24:00:00 and the leap second included */
	ASSUME(vh <= 24 && vm < 60 && vs <= 60 && vns < 1000000000U);
	fmt = mk_str((const u8*)cf, FLEN);
	buf = malloc(BSZ);
#if !VF_REPLAY
	__CPROVER_assume(buf != NULL);
#endif
	memset(&t, 0, sizeof(t));
	t.typ = DT_HMS;
	t.hms.h = vh, t.hms.m = vm, t.hms.s = vs, t.hms.ns = vns;
	n = dt_strft(buf, BSZ, fmt, t);
	CHECK(n <= BSZ, "never reports more output than the buffer holds");
	WITNESS();
}

/* (PDT) the date-time parser driver */
void
h_strpdt(void)
{
	ND_ARR(u8, vi, ILEN ? ILEN : 1);
	static const char cf[] = CFMT;
	char *fmt, *inp;
	char *ep = NULL;
	struct dt_dt_s d;

	for (unsigned int i = 0; i < ILEN; i++) {
		ASSUME(vi[i] != 0);
	}
	fmt = mk_str((const u8*)cf, FLEN);
	inp = mk_str(vi, ILEN);
	d = dt_strpdt(inp, fmt, &ep);
	CHECK(ep >= inp && ep <= inp + ILEN, "end pointer inside the input");
	(void)d;
	WITNESS();
}

/* (FDT) the date-time formatter driver */
void
h_strfdt(void)
{
	ND(u32, vu);
	ND(u8, vh);
	ND(u8, vm);
	ND(u8, vs);
	static const char cf[] = CFMT;
	char *fmt, *buf;
	struct dt_dt_s d;
	size_t n;

	ASSUME(vh < 24 && vm < 60 && vs < 60);
	fmt = mk_str((const u8*)cf, FLEN);
	buf = malloc(BSZ);
#if !VF_REPLAY
	__CPROVER_assume(buf != NULL);
#endif
	memset(&d, 0, sizeof(d));
	d.d.u = vu;
	ASSUME(d.d.ymd.y >= 1601 && d.d.ymd.y <= 4095 && d.d.ymd.m >= 1 && d.d.ymd.m <= 12 && d.d.ymd.d >= 1 && d.d.ymd.d <= 31);
	d.t.hms.h = vh, d.t.hms.m = vm, d.t.hms.s = vs;
	dt_make_sandwich(&d, DT_YMD, DT_HMS);
	n = dt_strfdt(buf, BSZ, fmt, d);
	CHECK(n <= BSZ, "never reports more output than the buffer holds");
	WITNESS();
}
