/* ref.h -- reference models (the oracle), written from the calendar
 * definitions, independent of the code under test.
 *
 * Proleptic Gregorian calendar; day numbers count from 1600-12-31 = 0,
 * i.e. 1601-01-01 = 1 (a Monday), 4095-12-31 = 911280.
 * Weekdays: Monday = 1 .. Sunday = 7 (ISO 8601). */
#if !defined REF_H_
#define REF_H_

#define REF_MIN_YEAR	1601
#define REF_MAX_YEAR	4095
#define REF_MAX_DAY	911280

static inline int
ref_leap(int y)
{
	return (y % 4 == 0 && y % 100 != 0) || y % 400 == 0;
}

static inline int
ref_mdays(int y, int m)
{
	switch (m) {
	case 1: case 3: case 5: case 7: case 8: case 10: case 12:
		return 31;
	case 4: case 6: case 9: case 11:
		return 30;
	case 2:
		return ref_leap(y) ? 29 : 28;
	default:
		return 0;
	}
}

static inline int
ref_ydays(int y)
{
	return ref_leap(y) ? 366 : 365;
}

/* days of the year before month m (m in 1..13) */
static inline int
ref_cum(int y, int m)
{
	static const int cum[] = {
		0, 31, 59, 90, 120, 151, 181, 212, 243, 273, 304, 334, 365
	};
	return cum[m - 1] + (m > 2 && ref_leap(y));
}

static inline int
ref_valid_ymd(int y, int m, int d)
{
	return y >= REF_MIN_YEAR && y <= REF_MAX_YEAR &&
		m >= 1 && m <= 12 && d >= 1 && d <= ref_mdays(y, m);
}

static inline int
ref_yday(int y, int m, int d)
{
	return ref_cum(y, m) + d;
}

/* number of days strictly before Jan 1 of Y, counted from 1601-01-01:
 * 365 per year plus one per leap year in 1601..Y-1 */
static inline int
ref_jan0(int y)
{
	int by = y - 1601;
	return 365 * by + by / 4 - by / 100 + by / 400;
}

static inline int
ref_days(int y, int m, int d)
{
	return ref_jan0(y) + ref_yday(y, m, d);
}

/* ISO weekday of day number n */
static inline int
ref_wday(int n)
{
	return (n - 1) % 7 + 1;
}

/* n is the (Y,M,D)-th day: relation form, no inversion needed */
static inline int
ref_is_ymd(int n, int y, int m, int d)
{
	return ref_valid_ymd(y, m, d) && ref_days(y, m, d) == n;
}

/* n is day DOY of year Y */
static inline int
ref_is_yd(int n, int y, int doy)
{
	return y >= REF_MIN_YEAR && y <= REF_MAX_YEAR &&
		doy >= 1 && doy <= ref_ydays(y) && ref_jan0(y) + doy == n;
}

/* ISO 8601: day n lies in ISO week W of ISO year Y with weekday WD iff
 * the Thursday of n's Monday-based week lies in Gregorian year Y and is
 * that year's W-th Thursday */
static inline int
ref_is_iso(int n, int y, int w, int wd)
{
	int thu = n - ref_wday(n) + 4;
	int j1 = ref_jan0(y) + 1;
	int z31 = ref_jan0(y) + ref_ydays(y);

	return wd == ref_wday(n) &&
		thu >= j1 && thu <= z31 && w == (thu - j1) / 7 + 1;
}

/* canonical `hang' of ISO year Y as the ywd type defines it: day-of-year
 * (relative to Jan 0 of Y) of the Sunday before week 1's Monday, i.e.
 * yday = 7*(c-1) + w + hang.  Week 1's Monday is the Monday of the week
 * holding Jan 4. */
static inline int
ref_hang(int y)
{
	int jan4 = ref_jan0(y) + 4;
	int mon1 = jan4 - ref_wday(jan4) + 1;
	return mon1 - 1 - ref_jan0(y);
}

/* weeks in ISO year Y */
static inline int
ref_isoweeks(int y)
{
	int z28 = ref_jan0(y) + ref_ydays(y) - 3;
	int thu = z28 - ref_wday(z28) + 4;
	return (thu - (ref_jan0(y) + 1)) / 7 + 1;
}

/* %U: week of year, weeks start on Sunday, days before the first Sunday
 * are week 0; %W: likewise with Monday */
static inline int
ref_wk_sun(int y, int doy)
{
	/* weekday of this day, Sunday = 0 */
	int wd = ref_wday(ref_jan0(y) + doy) % 7;
	return (doy + 6 - wd) / 7;
}

static inline int
ref_wk_mon(int y, int doy)
{
	/* weekday of this day, Monday = 0 */
	int wd = ref_wday(ref_jan0(y) + doy) - 1;
	return (doy + 6 - wd) / 7;
}

/* %C / ymcw yearly count: this is the K-th such weekday of the year */
static inline int
ref_wk_abs(int doy)
{
	return (doy - 1) / 7 + 1;
}

/* count of weekday within month */
static inline int
ref_mcount(int d)
{
	return (d - 1) / 7 + 1;
}

static inline int
ref_quarter(int m)
{
	return (m - 1) / 3 + 1;
}

/* day-number bases, from the calendars' definitions:
 * Lilian: the project documents it like its own daisy count, "reference date
 * 15 Oct 1582", i.e. days since that date (2012-01-01 -> 156767 is pinned by
 * the suite); 1601-01-01 is 6653 days after it -> LDN = n + 6652
 * Matlab datenum 1 = 0000-01-01; datenum(1601,1,1) = 584755 -> MDN = n + 584754
 * JDN (at noon) of 1601-01-01 = 2305814; the code uses the midnight form
 * n + 2305812.5; Unix day 0 = 1970-01-01 = day 134775 */
#define REF_LDN_BASE	6652
#define REF_MDN_BASE	584754
#define REF_UNIX_BASE	134775

/* months arithmetic: add N months to (y,m), keep the day, clamp to ultimo */
static inline void
ref_add_months(int y, int m, int d, int n, int *ry, int *rm, int *rd)
{
	int t = y * 12 + (m - 1) + n;
	int ty = t / 12;
	int tm = t % 12 + 1;
	int ml = ref_mdays(ty, tm);

	*ry = ty;
	*rm = tm;
	*rd = d > ml ? ml : d;
}

#endif	/* REF_H_ */
