/* C19 -- zone files load safely: zif_open on an arbitrary file image
 * unit under test: lib/tzraw.c (textually): zif_open (file branch), then
 * zif_find_zrng / zif_local_time on what it returns
 * environment: open/fstat/mmap/munmap/close are stubs: the "file" is a heap
 * object of exactly SIZE bytes with arbitrary content */
#include "vf.h"
#include <sys/types.h>
#include <sys/stat.h>
#include <sys/mman.h>
#include <fcntl.h>
#include <unistd.h>
#include <stdlib.h>
#include <string.h>

#if !defined SIZE
# define SIZE	64
#endif

static unsigned char *vf_img;
static int vf_unmapped;

static int
vf_open(const char *path, int flags, ...)
{
	(void)path, (void)flags;
	return 3;
}

static int
vf_fstat(int fd, struct stat *st)
{
	(void)fd;
	memset(st, 0, sizeof(*st));
	st->st_size = SIZE;
	return 0;
}

static void*
vf_mmap(void *addr, size_t len, int prot, int flags, int fd, off_t off)
{
	(void)addr, (void)len, (void)prot, (void)flags, (void)fd, (void)off;
	return vf_img;
}

static int
vf_munmap(void *addr, size_t len)
{
	(void)addr, (void)len;
	vf_unmapped = 1;
	return 0;
}

static int
vf_close(int fd)
{
	(void)fd;
	return 0;
}

#define open	vf_open
#define fstat	vf_fstat
#define mmap	vf_mmap
#define munmap	vf_munmap
#define close	vf_close
#include "tzraw.c"
#undef open
#undef fstat
#undef mmap
#undef munmap
#undef close

void
h_zif_open(void)
{
	ND_ARR(u8, vimg, SIZE ? SIZE : 1);
	ND(i64, vt);
	zif_t z;

	vf_img = malloc(SIZE ? SIZE : 1);
#if VF_REPLAY
	if (vf_img == NULL) {
		return;
	}
#else
	__CPROVER_assume(vf_img != NULL);
#endif
	for (unsigned int i = 0; i < SIZE; i++) {
		vf_img[i] = vimg[i];
	}
#if defined MAGIC
	/* the interesting half of the space: files that carry the magic */
	ASSUME(SIZE < 4 || (vimg[0] == 'T' && vimg[1] == 'Z' && vimg[2] == 'i' && vimg[3] == 'f'));
# if MAGIC == 2
	ASSUME(SIZE < 5 || vimg[4] == '2');
# elif MAGIC == 1
	ASSUME(SIZE < 5 || vimg[4] == '\0');
# endif
#endif
	/* header counts: concrete per obligation (the runner enumerates small,
	 * zero, and overflow-provoking values); a symbolic allocation size
	 * makes cbmc's array encoding explode (65 GB measured) */
#define PUT32(off, v)							\
	do {								\
		if ((off) + 4 <= SIZE) {				\
			vf_img[(off) + 0] = (unsigned char)((v) >> 24);	\
			vf_img[(off) + 1] = (unsigned char)((v) >> 16);	\
			vf_img[(off) + 2] = (unsigned char)((v) >> 8);	\
			vf_img[(off) + 3] = (unsigned char)(v);		\
		}							\
	} while (0)
#if defined H1_NTR
	PUT32(20, H1_GMT);
	PUT32(24, H1_STD);
	PUT32(28, H1_NLP);
	PUT32(32, H1_NTR);
	PUT32(36, H1_NTY);
	PUT32(40, H1_CHR);
#endif
#if defined H2_OFF
	/* second header where the first one says it is */
	PUT32(H2_OFF + 32, H2_NTR);
	PUT32(H2_OFF + 36, H2_NTY);
#endif
#if defined MAGIC
	if (SIZE >= 5) {
		vf_img[0] = 'T', vf_img[1] = 'Z', vf_img[2] = 'i', vf_img[3] = 'f';
		vf_img[4] = MAGIC == 2 ? '2' : '\0';
	}
#endif
	z = zif_open("/z");
	if (z != NULL) {
		/* what lookups rely on (C12 checks them on every such table) */
		int ok = z->nty > 0;
		for (size_t i = 0; i < z->ntr; i++) {
			ok &= z->tys[i] < z->nty;
			ok &= i == 0 || z->trs[i] > z->trs[i - 1];
		}
		CHECK(ok, "a loaded object has sorted transitions whose types index the offset table");
		CHECK(z->ntr <= SIZE / 5 && z->nty <= SIZE / 6, "counts bounded by the file size");
#if defined LOADCHK
		/* faithful loading (C12): a version 1 image of exactly
		 * 44 + 4*NTR + NTR + 6*NTY bytes; the loaded table is the file's
		 * table with transitions to the *same type* merged -- nothing else
		 * dropped, nothing reordered, offsets as written */
		{
			stamp_t etr[H1_NTR];
			unsigned int ety[H1_NTR], n = 0;
			for (unsigned int i = 0; i < H1_NTR; i++) {
				const unsigned char *q = vimg + 44 + 4 * i;
				unsigned int ty = vimg[44 + 4 * H1_NTR + i];
				uint32_t raw = (uint32_t)q[0] << 24 | (uint32_t)q[1] << 16 | (uint32_t)q[2] << 8 | q[3];
				if (i == 0 || ty != vimg[44 + 4 * H1_NTR + i - 1]) {
					etr[n] = (stamp_t)(int32_t)raw;
					ety[n] = ty;
					n++;
				}
			}
			CHECK(z->ntr == n, "every transition to a different type is kept, transitions to the same type are merged");
			for (unsigned int k = 0; k < H1_NTR; k++) {
				if (k < n) {
					CHECK(z->trs[k] == etr[k] && z->tys[k] == ety[k], "kept transitions carry the file's instant and type, in order");
				}
			}
			CHECK(z->nty == H1_NTY, "as many offsets as the file has types");
			for (unsigned int j = 0; j < H1_NTY; j++) {
				const unsigned char *q = vimg + 44 + 5 * H1_NTR + 6 * j;
				uint32_t raw = (uint32_t)q[0] << 24 | (uint32_t)q[1] << 16 | (uint32_t)q[2] << 8 | q[3];
				CHECK(z->ofs[j] == (int)(int32_t)raw, "offsets as written in the file");
			}
		}
#endif
#if defined WITH_LOOKUP
		{
			struct zrng_s r = zif_find_zrng(z, vt);
			stamp_t l = zif_local_time(z, vt);
			(void)r, (void)l;
		}
#endif
		zif_close(z);
	}
	(void)vt;
	WITNESS();
}
