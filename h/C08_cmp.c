/* C08 -- comparison is the chronological total order
 * unit under test: lib/date-core.c (dt_dcmp, __ymcw_cmp, dt_d_in_range_p) */
#include "vf.h"
#include "ref.h"
#include "date-core.c"
#include "vfh_cal.h"

#if !defined REP
# define REP	R_YMD
#endif
#if !defined YLO2
# define YLO2	YLO
# define YHI2	YHI
#endif

static inline int
sgn(int x)
{
	return (x > 0) - (x < 0);
}

/* second day from its own window */
#define ND_DAYB(r, p)							\
	ND(i32, p##y);							\
	ND(i32, p##m);							\
	ND(i32, p##d);							\
	ND(i32, p##iy);							\
	ND(i32, p##iw);							\
	struct refday r;						\
	ASSUME(p##y >= YLO2 && p##y <= YHI2);				\
	ASSUME(ref_valid_ymd(p##y, p##m, p##d));			\
	r.y = p##y, r.m = p##m, r.d = p##d;				\
	r.n = ref_days(p##y, p##m, p##d);				\
	r.doy = ref_yday(p##y, p##m, p##d);				\
	r.wd = ref_wday(r.n);						\
	ASSUME(p##iy >= p##y - 1 && p##iy <= p##y + 1 && p##iw >= 1 && p##iw <= 53); \
	ASSUME(ref_is_iso(r.n, p##iy, p##iw, r.wd));			\
	r.iy = p##iy, r.iw = p##iw

void
h_dcmp(void)
{
	ND_DAY2(a, va);
	ND_DAYB(b, vb);
	struct dt_d_s x = mk_rep(REP, a);
	struct dt_d_s y = mk_rep(REP, b);
	int c = dt_dcmp(x, y);

	CHECK(c == sgn(a.n - b.n), "dt_dcmp is the order of the two days on the timeline");
	CHECK(dt_dcmp(y, x) == -c, "antisymmetric");
	CHECK((c == 0) == (x.u == y.u), "equal iff the same date");
	WITNESS();
}

void
h_in_range(void)
{
	ND_DAY2(a, va);
	ND_DAYB(b, vb);
	ND_DAY2(c, vc);
	struct dt_d_s x = mk_rep(REP, a);
	struct dt_d_s lo = mk_rep(REP, b);
	struct dt_d_s hi = mk_rep(REP, c);
	int in = dt_d_in_range_p(x, lo, hi);

	CHECK(in == (b.n <= a.n && a.n <= c.n), "in range iff lo <= d <= hi on the timeline");
	WITNESS();
}

/* order laws on triples without the oracle (ymcw: the non-monotone encoding) */
void
h_trans(void)
{
	ND_DAY2(a, va);
	ND_DAYB(b, vb);
	ND_DAY2(c, vc);
	struct dt_d_s x = mk_rep(REP, a);
	struct dt_d_s y = mk_rep(REP, b);
	struct dt_d_s z = mk_rep(REP, c);
	int xy = dt_dcmp(x, y), yz = dt_dcmp(y, z), xz = dt_dcmp(x, z);

	CHECK(xy >= -1 && xy <= 1, "total: every pair is comparable");
	if (xy <= 0 && yz <= 0) {
		CHECK(xz <= 0, "transitive");
	}
	if (xy == 0) {
		CHECK(xz == yz, "equal dates compare alike");
	}
	WITNESS();
}
