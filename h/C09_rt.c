/* C09 -- parsing inverts formatting
 * unit under test: lib/date-core.c (dt_strfd, dt_strpd, __strpd_std, card
 * functions, __guess_dtyp), lib/token.c, lib/strops.c; the format is a
 * concrete string (the program), the value symbolic */
#include "vf.h"
#include "ref.h"
#if defined VF_CBMC
/* own model of strncasecmp (cbmc 6.11's built-in model returned non-zero for
 * equal prefixes on these symbolic buffers: counterexamples did not replay) */
# include <stddef.h>
static int
vf_strncasecmp(const char *a, const char *b, size_t n)
{
	for (size_t i = 0; i < n; i++) {
		unsigned char x = (unsigned char)a[i], y = (unsigned char)b[i];
		if (x >= 'A' && x <= 'Z') {
			x = (unsigned char)(x + 32);
		}
		if (y >= 'A' && y <= 'Z') {
			y = (unsigned char)(y + 32);
		}
		if (x != y) {
			return (int)x - (int)y;
		}
		if (!x) {
			return 0;
		}
	}
	return 0;
}
# define strncasecmp	vf_strncasecmp
#endif
#include "strops.c"
#if defined VF_CBMC
# undef strncasecmp
#endif
#include "date-core.c"
#include "vfh_cal.h"

#if !defined FMT
# define FMT	"%F"
#endif
#if !defined REP
# define REP	R_YMD
#endif
#define BSZ	40

void
h_roundtrip(void)
{
	ND_DAY(r);
	struct dt_d_s v = mk_rep(REP, r);
	char buf[BSZ];
	char *ep = NULL;
	size_t n;
	struct dt_d_s w;

#if defined USE_DEFAULT
	n = dt_strfd(buf, BSZ, NULL, v);
	CHECK(n > 0 && n < BSZ, "default output printed");
	w = dt_strpd(buf, NULL, &ep);
#else
	n = dt_strfd(buf, BSZ, FMT, v);
	CHECK(n > 0 && n < BSZ, "formatted text fits");
	w = dt_strpd(buf, FMT, &ep);
#endif
	CHECK(ep == buf + n, "the parser consumes the whole text");
	CHECK(rep_days(w) == r.n, "parsing the formatted text returns the original day");
#if !defined ANYREP
	CHECK(w.typ == v.typ && w.u == v.u, "in the original representation");
#endif
	WITNESS();
}
