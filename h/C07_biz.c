/* C07 -- business-day arithmetic counts Monday-Friday days exactly
 * unit under test: lib/date-core.c (lib/bizda.c kernels, dt_dadd_b,
 * dt_ddiff(DT_DURBD), bizda conversions) */
#include "vf.h"
#include "ref.h"
#include "date-core.c"
#include "vfh_cal.h"

#if !defined REP
# define REP	R_YMD
#endif
#if !defined NMAX
# define NMAX	60
#endif

/* number of Monday-to-Friday days among day numbers 1..t (day 1 is a Monday) */
static inline int
ref_B(int t)
{
	int r = t % 7;
	return 5 * (t / 7) + (r > 5 ? 5 : r);
}

/* y is the n-th business day strictly after (n > 0) / before (n < 0) x */
static inline int
ref_is_nth_bday(int x, int n, int y)
{
	if (ref_wday(y) > 5) {
		return 0;
	}
	if (n > 0) {
		return y > x && ref_B(y) - ref_B(x) == n;
	}
	return y < x && ref_B(x - 1) - ref_B(y - 1) == -n;
}

/* (1) closed form: business days -> calendar days; the start weekday WD is
 * enumerated by the runner, the start day is a fixed day with that weekday
 * (the function only sees the weekday), the count is symbolic */
#if !defined WD
# define WD	1
#endif
#if !defined NLO
# define NLO	(-NMAX)
#endif
#if !defined NHI
# define NHI	NMAX
#endif
void
h_d_equiv(void)
{
	ND(i32, vn);
	const int x = WD + 7 * 400000;
	int e;

	ASSUME(vn != 0 && vn >= NLO && vn <= NHI);
	e = __get_d_equiv((dt_dow_t)WD, vn);
	CHECK(ref_is_nth_bday(x, vn, x + e), "__get_d_equiv: offset of the n-th business day after/before");
	WITNESS();
}

/* (2) adding business days, per calendar */
void
h_add_b(void)
{
	ND_DAY(r);
	ND(i32, vn);
	struct dt_d_s x = mk_rep(REP, r);
	struct dt_d_s y;
	int yn;

	ASSUME(vn != 0 && vn >= -NMAX && vn <= NMAX);
	ASSUME(r.n > 2 * NMAX && r.n < REF_MAX_DAY - 2 * NMAX);
	y = dt_dadd_b(x, vn);
	yn = rep_days(y);
	CHECK(y.typ == x.typ, "calendar kept");
	CHECK(yn > 0 && ref_is_nth_bday(r.n, vn, yn), "date + n business days is the n-th Mon-Fri day after/before");
	WITNESS();
}

/* (3) difference in business days */
void
h_diff_b(void)
{
	ND_DAY2(a, va);
	ND(i32, vk);
	struct refday b = a;
	struct dt_d_s x, y;
	struct dt_ddur_s dur;

	/* second day: up to NMAX days away, either side */
	ASSUME(vk >= -NMAX && vk <= NMAX);
	b.n = a.n + vk;
	ASSUME(b.n >= 1 && b.n <= REF_MAX_DAY);
	/* known finding diff_b_weekend_back: going backwards from a Saturday or
	 * Sunday the count is one short (ddiff 2000-04-15 2000-04-14 -f %db
	 * prints 0b although dadd 2000-04-15 -1b is 2000-04-14) */
#if defined KF_ONLY_diff_b_weekend_back
	ASSUME(vk < 0 && ref_wday(a.n) > 5);
#elif defined KF_EXCL_diff_b_weekend_back
	ASSUME(!(vk < 0 && ref_wday(a.n) > 5));
#endif
	x = mk_rep(R_DAISY, a);
	y = mk_rep(R_DAISY, b);
	dur = dt_ddiff(DT_DURBD, x, y, 0);
	if (vk >= 0) {
		CHECK(dur.dv == ref_B(b.n) - ref_B(a.n), "Mon-Fri days in the half-open interval (a, b]");
	} else if (ref_wday(b.n) <= 5) {
		CHECK(dur.dv == -(ref_B(a.n - 1) - ref_B(b.n - 1)), "Mon-Fri days in [b, a), negated");
	}
	/* inverts the addition whenever the target is a business day */
	if (ref_wday(b.n) <= 5) {
		if (dur.dv == 0) {
			CHECK(vk == 0, "zero business days only between a day and itself (target a business day)");
		} else {
			struct dt_d_s z = dt_dadd_b(x, dur.dv);
			CHECK((int)z.daisy == b.n, "dt_dadd_b(a, ddiff(a, b)) == b");
		}
	}
	WITNESS();
}

/* (4) the bizda calendar: YYYY-MM-DDb is the DD-th business day of the month */
void
h_bizda(void)
{
	ND(i32, vy);
	ND(i32, vm);
	ND(i32, vb);
	int first, last, nb;
	dt_bizda_t bz;
	struct dt_d_s v, t;

	ASSUME(vy >= YLO && vy <= YHI && vm >= 1 && vm <= 12);
	first = ref_days(vy, vm, 1);
	last = ref_days(vy, vm, ref_mdays(vy, vm));
	nb = ref_B(last) - ref_B(first - 1);
	CHECK((int)__get_bdays(vy, vm) == nb, "__get_bdays: business days of the month");
	ASSUME(vb >= 1 && vb <= nb);
	bz.u = 0;
	bz.y = vy, bz.m = vm, bz.bd = vb;
	{
		unsigned int md = __bizda_get_mday(bz);
		int n = first + (int)md - 1;
		CHECK(md >= 1 && (int)md <= ref_mdays(vy, vm), "day of month in range");
		CHECK(ref_wday(n) <= 5 && ref_B(n) - ref_B(first - 1) == vb, "the vb-th business day of the month");
		CHECK((int)__bizda_get_wday(bz) == ref_wday(n), "weekday of a bizda date");
		memset(&v, 0, sizeof(v));
		v.typ = DT_BIZDA;
		v.bizda = bz;
		t = dt_dconv(DT_YMD, v);
		CHECK(rep_days(t) == n, "bizda -> ymd");
		t = dt_dconv(DT_DAISY, v);
		CHECK((int)t.daisy == n, "bizda -> daisy");
		CHECK((int)__bizda_get_yday(bz, __make_bizda_param(BIZDA_AFTER, BIZDA_ULTIMO)) ==
		      ref_B(n) - ref_B(ref_jan0(vy)), "business day of the year");
	}
	WITNESS();
}

/* (5) bizda + n business days / months */
void
h_bizda_add(void)
{
	ND(i32, vy);
	ND(i32, vm);
	ND(i32, vb);
	ND(i32, vn);
	int first, last, nb, n;
	struct dt_d_s v, t;

	ASSUME(vy >= YLO && vy <= YHI && vm >= 1 && vm <= 12);
	first = ref_days(vy, vm, 1);
	last = ref_days(vy, vm, ref_mdays(vy, vm));
	nb = ref_B(last) - ref_B(first - 1);
	ASSUME(vb >= 1 && vb <= nb);
	ASSUME(vn != 0 && vn >= -NMAX && vn <= NMAX);
	memset(&v, 0, sizeof(v));
	v.typ = DT_BIZDA;
	v.bizda.y = vy, v.bizda.m = vm, v.bizda.bd = vb;
	n = (int)dt_dconv(DT_DAISY, v).daisy;
	/* the result lies inside the supported range (|n| business days are
	 * fewer than 7|n|/5 + 3 days away) */
	ASSUME(n - (7 * NMAX / 5 + 3) >= 1 && n + (7 * NMAX / 5 + 3) <= REF_MAX_DAY);
	t = dt_dadd_b(v, vn);
	CHECK(t.typ == DT_BIZDA, "calendar kept");
	CHECK(ref_is_nth_bday(n, vn, (int)dt_dconv(DT_DAISY, t).daisy), "bizda + n business days");
	WITNESS();
}

/* (6) bizda + n months / years: month arithmetic, then the business-day
 * index cropped to the number of business days of the target month */
#if !defined MUNIT
# define MUNIT	DT_DURMO
#endif
void
h_bizda_add_m(void)
{
	ND(i32, vy);
	ND(i32, vm);
	ND(i32, vb);
	ND(i32, vn);
	int first, last, nb, t, ty, tm, tnb;
	struct dt_d_s v, r;

	ASSUME(vy >= YLO && vy <= YHI && vm >= 1 && vm <= 12);
	first = ref_days(vy, vm, 1);
	last = ref_days(vy, vm, ref_mdays(vy, vm));
	nb = ref_B(last) - ref_B(first - 1);
	ASSUME(vb >= 1 && vb <= nb);
	ASSUME(vn != 0 && vn >= -NMAX && vn <= NMAX);
	memset(&v, 0, sizeof(v));
	v.typ = DT_BIZDA;
	v.bizda.y = vy, v.bizda.m = vm, v.bizda.bd = vb;
	r = dt_dfixup(dt_dadd(v, dt_make_ddur(MUNIT, vn)));
	t = vy * 12 + (vm - 1) + (MUNIT == DT_DURYR ? 12 * vn : MUNIT == DT_DURQU ? 3 * vn : vn);
	ty = t / 12, tm = t % 12 + 1;
	ASSUME(ty >= REF_MIN_YEAR && ty <= REF_MAX_YEAR);
	tnb = ref_B(ref_days(ty, tm, ref_mdays(ty, tm))) - ref_B(ref_days(ty, tm, 1) - 1);
	CHECK(r.typ == DT_BIZDA && (int)r.bizda.y == ty && (int)r.bizda.m == tm, "bizda + n months: the month arithmetic");
	CHECK((int)r.bizda.bd == (vb > tnb ? tnb : vb), "business-day index kept, or cropped to the month's last business day");
	WITNESS();
}

