/* C13 -- results do not depend on what was processed before: one inductive
 * step per state-carrying component (DESIGN 2.5)
 *  (2) lib/strops.c: character-class table + cycle counter
 *  (3) lib/dt-core.c: base date-time singleton */
#include "vf.h"

#if defined PART_STROPS
#include "strops.c"

#if !defined SL
# define SL	4	/* bytes of source string */
#endif
#if !defined TL
# define TL	3	/* bytes of set string */
#endif

/* one search from an ARBITRARY table state satisfying the representation
 * invariant (every entry <= cycle; that is what any history leaves behind:
 * entries are only ever written with the then-current cycle, the cycle only
 * grows, and both are zeroed together on wrap-around) */
void
h_strops_step(void)
{
	ND_ARR(u8, vtab, 256);
	ND(u8, vcycle);
	ND_ARR(u8, vsrc, SL);
	ND_ARR(u8, vset, TL);
	ND(u8, vwhich);
	char src[SL + 1];
	char set[TL + 1];
	size_t got, want;

	for (unsigned int i = 0; i < 256; i++) {
		ASSUME(vtab[i] <= vcycle);
		table[i] = vtab[i];
	}
	cycle = vcycle;
	for (unsigned int i = 0; i < SL; i++) {
		src[i] = (char)vsrc[i];
	}
	src[SL] = '\0';
	for (unsigned int i = 0; i < TL; i++) {
		set[i] = (char)vset[i];
	}
	set[TL] = '\0';

	/* reference: plain scans */
	want = 0;
	if (vwhich == 0) {
		/* strspn */
		int stop = 0;
		for (unsigned int i = 0; i < SL; i++) {
			int in = 0;
			for (unsigned int k = 0; k < TL && set[k]; k++) {
				in |= set[k] == src[i];
			}
			if (!src[i] || !in) {
				stop = 1;
			}
			if (!stop) {
				want++;
			}
		}
		got = xstrspn(src, set);
	} else {
		/* strcspn / strpbrk */
		int stop = 0;
		for (unsigned int i = 0; i < SL; i++) {
			int in = 0;
			for (unsigned int k = 0; k < TL && set[k]; k++) {
				in |= set[k] == src[i];
			}
			if (!src[i] || in) {
				stop = 1;
			}
			if (!stop) {
				want++;
			}
		}
		got = vwhich == 1 ? xstrcspn(src, set) : (size_t)(xstrpbrk(src, set) - src);
	}
	CHECK(got == want, "search result independent of earlier searches");
	/* the invariant holds again */
	{
		int inv = 1;
		for (unsigned int i = 0; i < 256; i++) {
			inv &= table[i] <= cycle;
		}
		CHECK(inv, "table entries never exceed the cycle counter");
	}
	WITNESS();
}
#endif	/* PART_STROPS */

#if defined PART_BASE
#include "ref.h"
#if defined VF_CBMC
/* the clock is an arbitrary value on every reading */
# define gettimeofday	vf_gettimeofday
#endif
#include "leap-seconds.def"
#include "dt-core.c"
#if defined VF_CBMC
i64 nondet_i64(void);
i32 nondet_i32(void);
int
vf_gettimeofday(struct timeval *tv, void *tz)
{
	i64 s = nondet_i64();
	i32 us = nondet_i32();
	/* ffff_gmtime's documented domain is 1901..2099 */
	__CPROVER_assume(s >= 0 && s < 4102444800LL);
	__CPROVER_assume(us >= 0 && us < 1000000);
	tv->tv_sec = s;
	tv->tv_usec = us;
	(void)tz;
	return 0;
}
#endif
#include "vfh_cal.h"

/* with --base: every later reading is the base given, whatever the clock */
void
h_base_set(void)
{
	ND(i32, vy);
	ND(i32, vm);
	ND(i32, vd);
	ND(u8, vprior);
	struct dt_dt_s b, g1, g2;

	ASSUME(ref_valid_ymd(vy, vm, vd));
	if (vprior) {
		/* an earlier reading may or may not have happened */
		(void)dt_get_base();
	}
	memset(&b, 0, sizeof(b));
	b.d.typ = DT_YMD;
	b.d.ymd.y = vy, b.d.ymd.m = vm, b.d.ymd.d = vd;
	dt_make_d_only(&b, DT_YMD);
	dt_set_base(b);
	g1 = dt_get_base();
	g2 = dt_get_base();
	CHECK(g1.d.typ == DT_YMD && (int)g1.d.ymd.y == vy && (int)g1.d.ymd.m == vm && (int)g1.d.ymd.d == vd,
	      "dt_get_base returns the base that was set");
	CHECK(g1.d.u == g2.d.u && g1.t.u == g2.t.u, "and keeps returning it");
	WITNESS();
}

/* without --base: the first clock reading is used for every later call */
void
h_base_now(void)
{
	struct dt_dt_s g1 = dt_get_base();
	struct dt_dt_s g2 = dt_get_base();
	struct dt_d_s d3 = dt_get_dbase();

	CHECK(g1.d.u == g2.d.u && g1.t.u == g2.t.u && d3.u == g1.d.u,
	      "one consistent `now' throughout a run");
	WITNESS();
}
#endif	/* PART_BASE */
