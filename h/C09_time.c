/* C09 -- parsing inverts formatting, times of day
 * unit under test: lib/time-core.c (dt_strft, dt_strpt, __strft_card,
 * __strpt_card, __guess_ttyp; textually includes time-core-strpf.c),
 * lib/token.c, lib/strops.c; the format is a concrete string (the program),
 * the time symbolic */
#include "vf.h"
#include "strops.c"
#include "time-core.c"

#if !defined FMT
# define FMT	"%H:%M:%S"
#endif
/* which fields the format carries: 1 hour, 2 minute, 4 second */
#if !defined KEEP
# define KEEP	7
#endif
#define BSZ	24

void
h_rt_time(void)
{
	ND(u8, vh);
	ND(u8, vmi);
	ND(u8, vs);
	struct dt_t_s t, w;
	char buf[BSZ];
	char *ep = NULL;
	size_t n;

	ASSUME(vh < 24 && vmi < 60 && vs < 60);
	memset(&t, 0, sizeof(t));
	t.typ = DT_HMS;
	t.hms.h = vh, t.hms.m = vmi, t.hms.s = vs;
	n = dt_strft(buf, BSZ, FMT, t);
	CHECK(n > 0 && n < BSZ, "printed");
	buf[n < BSZ ? n : BSZ - 1] = '\0';
	w = dt_strpt(buf, FMT, &ep);
	CHECK(w.typ == DT_HMS, "own output accepted");
	CHECK(ep == buf + n, "whole text consumed");
	CHECK(!(KEEP & 1) || w.hms.h == vh, "hour recovered");
	CHECK(!(KEEP & 2) || w.hms.m == vmi, "minute recovered");
	CHECK(!(KEEP & 4) || w.hms.s == vs, "second recovered");
	CHECK(w.hms.ns == 0, "no fraction invented");
	WITNESS();
}
