/* vfh_cal.h -- symbolic day of a year window and its reference
 * representations; shared by the calendar harnesses (C01..C08).
 * Include after date-core.c (or date-core.h) and ref.h. */
#if !defined VFH_CAL_H_
#define VFH_CAL_H_

#if !defined YLO
# define YLO	1601
#endif
#if !defined YHI
# define YHI	4095
#endif

/* representation selectors (compile-time constants from the runner) */
#define R_YMD	1
#define R_YMCW	2
#define R_BIZDA	3
#define R_YWD	4
#define R_YD	5
#define R_DAISY	6
#define R_JDN	8
#define R_LDN	9
#define R_MDN	10

struct refday {
	int y, m, d;	/* Gregorian */
	int n;		/* days since 1600-12-31 */
	int doy;	/* day of year */
	int wd;		/* 1 = Monday .. 7 = Sunday */
	int iy, iw;	/* ISO 8601 week-year and week */
};

/* every day of the window YLO-01-01 .. YHI-12-31 (symbolic), together with
 * its reference representations; the ISO pair is found relationally */
#define ND_DAY(r)							\
	ND(i32, vy);							\
	ND(i32, vm);							\
	ND(i32, vd);							\
	ND(i32, viy);							\
	ND(i32, viw);							\
	struct refday r;						\
	ASSUME(vy >= YLO && vy <= YHI);					\
	ASSUME(ref_valid_ymd(vy, vm, vd));				\
	r.y = vy, r.m = vm, r.d = vd;					\
	r.n = ref_days(vy, vm, vd);					\
	r.doy = ref_yday(vy, vm, vd);					\
	r.wd = ref_wday(r.n);						\
	ASSUME(viy >= vy - 1 && viy <= vy + 1 && viw >= 1 && viw <= 53); \
	ASSUME(ref_is_iso(r.n, viy, viw, r.wd));			\
	r.iy = viy, r.iw = viw;						\
	KF_DAISY_TAIL(r.n)

/* known finding `daisy_tail' (known-findings.txt): day numbers above
 * 910674 (4094-05-05 .. 4095-12-31) are refused by the day-number
 * converters; the repo's own test dconv.122 pins that cut-off */
#if defined KF_ONLY_daisy_tail
# define KF_DAISY_TAIL(n)	ASSUME((n) > 910674)
#elif defined KF_EXCL_daisy_tail
# define KF_DAISY_TAIL(n)	ASSUME((n) <= 910674)
#else
# define KF_DAISY_TAIL(n)	(void)0
#endif

/* same with a name prefix, for harnesses over pairs of days */
#define ND_DAY2(r, p)							\
	ND(i32, p##y);							\
	ND(i32, p##m);							\
	ND(i32, p##d);							\
	ND(i32, p##iy);							\
	ND(i32, p##iw);							\
	struct refday r;						\
	ASSUME(p##y >= YLO && p##y <= YHI);				\
	ASSUME(ref_valid_ymd(p##y, p##m, p##d));			\
	r.y = p##y, r.m = p##m, r.d = p##d;				\
	r.n = ref_days(p##y, p##m, p##d);				\
	r.doy = ref_yday(p##y, p##m, p##d);				\
	r.wd = ref_wday(r.n);						\
	ASSUME(p##iy >= p##y - 1 && p##iy <= p##y + 1 && p##iw >= 1 && p##iw <= 53); \
	ASSUME(ref_is_iso(r.n, p##iy, p##iw, r.wd));			\
	r.iy = p##iy, r.iw = p##iw

/* the value of day R in representation REP, built field by field from the
 * reference (never by the code under test) */
static inline struct dt_d_s
mk_rep(int rep, struct refday r)
{
	struct dt_d_s x;

	memset(&x, 0, sizeof(x));
	switch (rep) {
	case R_YMD:
		x.typ = DT_YMD;
		x.ymd.y = r.y;
		x.ymd.m = r.m;
		x.ymd.d = r.d;
		break;
	case R_YMCW:
		x.typ = DT_YMCW;
		x.ymcw.y = r.y;
		x.ymcw.m = r.m;
		x.ymcw.c = ref_mcount(r.d);
		x.ymcw.w = r.wd;
		break;
	case R_YWD:
		x.typ = DT_YWD;
		x.ywd.y = r.iy;
		x.ywd.c = r.iw;
		x.ywd.w = r.wd;
		x.ywd.hang = ref_hang(r.iy);
		break;
	case R_YD:
		x.typ = DT_YD;
		x.yd.y = r.y;
		x.yd.d = r.doy;
		break;
	case R_DAISY:
		x.typ = DT_DAISY;
		x.daisy = r.n;
		break;
	case R_LDN:
		x.typ = DT_LDN;
		x.ldn = r.n + REF_LDN_BASE;
		break;
	case R_MDN:
		x.typ = DT_MDN;
		x.mdn = r.n + REF_MDN_BASE;
		break;
	case R_JDN:
		x.typ = DT_JDN;
		/* exact in binary32: < 2^22 with a fraction of .5 */
		x.jdn = (float)r.n + 2305812.5f;
		break;
	default:
		break;
	}
	return x;
}

/* does V denote day R in representation REP, exactly as the calendar
 * defines it (canonical fields included) */
static inline int
is_rep(int rep, struct dt_d_s v, struct refday r)
{
	switch (rep) {
	case R_YMD:
		return v.typ == DT_YMD && (int)v.ymd.y == r.y &&
			(int)v.ymd.m == r.m && (int)v.ymd.d == r.d;
	case R_YMCW:
		return v.typ == DT_YMCW && (int)v.ymcw.y == r.y &&
			(int)v.ymcw.m == r.m &&
			(int)v.ymcw.c == ref_mcount(r.d) && (int)v.ymcw.w == r.wd;
	case R_YWD:
		return v.typ == DT_YWD && (int)v.ywd.y == r.iy &&
			(int)v.ywd.c == r.iw && (int)v.ywd.w == r.wd &&
			(int)v.ywd.hang == ref_hang(r.iy);
	case R_YD:
		return v.typ == DT_YD && (int)v.yd.y == r.y && (int)v.yd.d == r.doy;
	case R_DAISY:
		return v.typ == DT_DAISY && (int)v.daisy == r.n;
	case R_LDN:
		return v.typ == DT_LDN && (int)v.ldn == r.n + REF_LDN_BASE;
	case R_MDN:
		return v.typ == DT_MDN && (int)v.mdn == r.n + REF_MDN_BASE;
	case R_JDN:
		return v.typ == DT_JDN && v.jdn == (float)r.n + 2305812.5f;
	default:
		return 0;
	}
}

/* the day a value denotes, as a day number, via the reference only; -1 if
 * the value is not a valid member of its calendar */
static inline int
rep_days(struct dt_d_s v)
{
	switch (v.typ) {
	case DT_YMD:
		if (!ref_valid_ymd(v.ymd.y, v.ymd.m, v.ymd.d)) {
			return -1;
		}
		return ref_days(v.ymd.y, v.ymd.m, v.ymd.d);
	case DT_YD:
		if (v.yd.y < REF_MIN_YEAR || v.yd.y > REF_MAX_YEAR ||
		    v.yd.d < 1 || v.yd.d > ref_ydays(v.yd.y)) {
			return -1;
		}
		return ref_jan0(v.yd.y) + v.yd.d;
	case DT_DAISY:
		return v.daisy >= 1 && v.daisy <= REF_MAX_DAY ? (int)v.daisy : -1;
	case DT_LDN:
		return (int)v.ldn - REF_LDN_BASE;
	case DT_MDN:
		return (int)v.mdn - REF_MDN_BASE;
	case DT_YWD: {
		/* Monday of week 1 plus 7*(c-1) + w-1; week must exist,
		 * hang must be canonical */
		int y = v.ywd.y, c = v.ywd.c, w = v.ywd.w;
		if (y < REF_MIN_YEAR - 1 || y > REF_MAX_YEAR + 1 || w < 1 || w > 7 ||
		    c < 1 || c > ref_isoweeks(y) || v.ywd.hang != ref_hang(y)) {
			return -1;
		}
		return ref_jan0(y) + ref_hang(y) + 7 * (c - 1) + w;
	}
	case DT_YMCW: {
		/* the c-th weekday w of month m */
		int y = v.ymcw.y, m = v.ymcw.m, c = v.ymcw.c, w = v.ymcw.w;
		int first, d;
		if (y < REF_MIN_YEAR || y > REF_MAX_YEAR || m < 1 || m > 12 ||
		    w < 1 || w > 7 || c < 1 || c > 5) {
			return -1;
		}
		first = ref_wday(ref_days(y, m, 1));
		d = 1 + (w - first + 7) % 7 + 7 * (c - 1);
		if (d > ref_mdays(y, m)) {
			return -1;
		}
		return ref_days(y, m, d);
	}
	default:
		return -1;
	}
}

#endif	/* VFH_CAL_H_ */
