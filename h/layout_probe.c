/* layout_probe.c -- compiled twice by gcc: against the snapshot's headers and
 * against the copy in which enum-typed bit-fields were rewritten to
 * `unsigned int' for CBMC.  The two outputs must be identical. */
#include <stdio.h>
#include <string.h>
#include "date-core.h"
#include "time-core.h"
#include "dt-core.h"
#include "token.h"
#include "dexpr.h"

static void
dump(const char *what, const void *p, size_t n)
{
	const unsigned char *b = p;
	printf("%-28s %2zu:", what, n);
	for (size_t i = 0; i < n; i++) {
		printf(" %02x", b[i]);
	}
	putchar('\n');
}

#define ONE(T, f)					\
	do {						\
		T x;					\
		memset(&x, 0, sizeof(x));		\
		x.f = ~0ULL;				\
		dump(#T "." #f, &x, sizeof(x));		\
		memset(&x, 0, sizeof(x));		\
		x.f = 1;				\
		dump(#T "." #f "=1", &x, sizeof(x));	\
	} while (0)

int
main(void)
{
	ONE(struct dt_d_s, typ);
	ONE(struct dt_d_s, fix);
	ONE(struct dt_d_s, xxx);
	ONE(struct dt_d_s, neg);
	ONE(struct dt_d_s, param);
	ONE(struct dt_d_s, u);
	ONE(struct dt_ddur_s, durtyp);
	ONE(struct dt_ddur_s, fix);
	ONE(struct dt_ddur_s, cocl);
	ONE(struct dt_ddur_s, neg);
	ONE(struct dt_ddur_s, param);
	ONE(struct dt_ddur_s, dv);
	ONE(struct dt_t_s, typ);
	ONE(struct dt_t_s, dur);
	ONE(struct dt_t_s, neg);
	ONE(struct dt_t_s, carry);
	ONE(struct dt_t_s, u);
	ONE(struct dt_t_s, sdur);
	ONE(struct dt_t_s, nsdur);
	ONE(struct dt_t_s, hms.h);
	ONE(struct dt_t_s, hms.ns);
	ONE(struct dt_dt_s, typ);
	ONE(struct dt_dt_s, sandwich);
	ONE(struct dt_dt_s, znfxd);
	ONE(struct dt_dt_s, tai);
	ONE(struct dt_dt_s, fix);
	ONE(struct dt_dt_s, xxx);
	ONE(struct dt_dt_s, neg);
	ONE(struct dt_dt_s, zdiff);
	ONE(struct dt_dt_s, u);
	ONE(struct dt_dt_s, sexy);
	ONE(struct dt_dt_s, soft);
	ONE(struct dt_dt_s, corr);
	ONE(struct dt_dt_s, d.typ);
	ONE(struct dt_dt_s, d.u);
	ONE(struct dt_dt_s, t.typ);
	ONE(struct dt_dt_s, t.u);
	ONE(struct dt_dtdur_s, durtyp);
	ONE(struct dt_dtdur_s, tai);
	ONE(struct dt_dtdur_s, cocl);
	ONE(struct dt_dtdur_s, neg);
	ONE(struct dt_dtdur_s, dv);
	ONE(struct dt_dtdur_s, soft);
	ONE(struct dt_dtdur_s, corr);
	ONE(struct dt_dtdur_s, d.durtyp);
	ONE(struct dt_dtdur_s, d.dv);
	ONE(struct dt_dtdur_s, t.sdur);
	ONE(struct dt_spec_s, ord);
	ONE(struct dt_spec_s, rom);
	ONE(struct dt_spec_s, tai);
	ONE(struct dt_spec_s, ab);
	ONE(struct dt_spec_s, bizda);
	ONE(struct dt_spec_s, abbr);
	ONE(struct dt_spec_s, pad);
	ONE(struct dt_spec_s, sc12);
	ONE(struct dt_spec_s, cap);
	ONE(struct dt_spec_s, wk_cnt);
	ONE(struct dt_spec_s, spfl);
	ONE(struct dexkv_s, op);
	ONE(struct dexkv_s, s);
	ONE(struct dexpr_s, type);
	ONE(struct dexpr_s, nega);
	printf("sizes %zu %zu %zu %zu %zu %zu %zu %zu\n",
	       sizeof(struct dt_d_s), sizeof(struct dt_ddur_s), sizeof(struct dt_t_s),
	       sizeof(struct dt_dt_s), sizeof(struct dt_dtdur_s),
	       sizeof(struct dt_spec_s), sizeof(struct dexkv_s), sizeof(struct dexpr_s));
	return 0;
}
