/* C12 -- zone conversion follows the zone file's transition table
 * C13(1) -- the zone range cache never changes an answer (one inductive step)
 * unit under test: lib/tzraw.c (textually): zif_trans, _zif_type,
 * _zif_troffs, __find_trno, __find_zrng, zif_find_zrng, __offs,
 * zif_local_time, zif_utc_time */
#include "vf.h"
#include "tzraw.c"

#if !defined N
# define N	3	/* number of transitions in the table */
#endif
#define NTY	4
#define NA	((N) ? (N) : 1)
#define OFFMAX	57600	/* +-16h */

static struct {
	struct zif_s z;
	stamp_t trs[NA];
	zof_t ofs[NTY];
	zty_t tys[NA];
} Z;

#if defined BIGTAB
/* a concrete table with more than 255 transitions, half a year apart,
 * alternating between three offsets */
static void
mk_table(void)
{
	Z.z.ntr = N;
	Z.z.nty = 3;
	Z.z.trs = Z.trs;
	Z.z.ofs = Z.ofs;
	Z.z.tys = Z.tys;
	Z.ofs[0] = 3600, Z.ofs[1] = 7200, Z.ofs[2] = -18000;
	for (unsigned int i = 0; i < N; i++) {
		Z.trs[i] = -3000000000LL + (stamp_t)i * 15778800;
		Z.tys[i] = i % 3;
	}
}
#else
/* an arbitrary table: N transitions at strictly increasing instants, up to
 * NTY offset types of up to +-16h, every transition of an arbitrary type */
#define MK_TABLE()							\
	ND_ARR(i64, vtrs, NA);						\
	ND_ARR(i32, vofs, NTY);						\
	ND_ARR(u8, vtys, NA);						\
	ND(u8, vnty);							\
	ASSUME(vnty >= 1 && vnty <= NTY);				\
	Z.z.ntr = N;							\
	Z.z.nty = vnty;							\
	Z.z.trs = Z.trs;						\
	Z.z.ofs = Z.ofs;						\
	Z.z.tys = Z.tys;						\
	for (unsigned int i = 0; i < NTY; i++) {			\
		ASSUME(vofs[i] >= -OFFMAX && vofs[i] <= OFFMAX);	\
		Z.ofs[i] = vofs[i];					\
	}								\
	for (unsigned int i = 0; i < N; i++) {				\
		ASSUME(vtrs[i] > -(1LL << 40) && vtrs[i] < (1LL << 40)); \
		ASSUME(i == 0 || vtrs[i] > vtrs[i - 1] SPACING);	\
		ASSUME(vtys[i] < vnty);					\
		Z.trs[i] = vtrs[i];					\
		Z.tys[i] = vtys[i];					\
	}
# if !defined SPACING
#  define SPACING
# endif
#endif

/* reference: index of the last transition at or before T, -1 if none */
static int
ref_k(stamp_t t)
{
	int k = -1;
	for (unsigned int i = 0; i < N; i++) {
		if (Z.trs[i] <= t) {
			k = (int)i;
		}
	}
	return k;
}

static int
ref_offs(stamp_t t)
{
	int k = ref_k(t);
	return Z.ofs[Z.tys[k < 0 ? 0 : k]];
}

/* is C the range the table defines around T (T at or after the first
 * transition) */
static int
ref_zrng_p(struct zrng_s c, stamp_t t)
{
	int k = ref_k(t);
	if (k < 0) {
		return 0;
	}
	return c.prev == Z.trs[k] &&
		c.next == (k + 1 < N ? Z.trs[k + 1] : STAMP_MAX) &&
		c.offs == Z.ofs[Z.tys[k]];
}

/* C12(1): cold cache, any instant from the first transition on */
void
h_local(void)
{
#if defined BIGTAB
	mk_table();
#else
	MK_TABLE();
#endif
	ND(i64, vt);
	struct zrng_s r;

	ASSUME(vt > -(1LL << 41) && vt < (1LL << 41));
	ASSUME(N == 0 || vt >= Z.trs[0]);
#if defined KF_ONLY_tz_cold_negative
	ASSUME(vt < 0);
#elif defined KF_EXCL_tz_cold_negative
	ASSUME(vt >= 0);
#endif
	memset(&Z.z.cache, 0, sizeof(Z.z.cache));
	r = zif_find_zrng(&Z.z, vt);
#if N > 0
	CHECK(ref_zrng_p(r, vt), "zif_find_zrng: adjacent table entries and the offset in force");
	CHECK(N > 255 || r.trno == (unsigned int)ref_k(vt), "transition number");
#endif
	CHECK(zif_local_time(&Z.z, vt) == vt + ref_offs(vt), "UTC -> local adds the offset in force at the instant");
	WITNESS();
}

/* C13(1): one inductive step over the cache: from any state the cache can
 * be in (cold, or the range of some earlier instant T0, or the before-first
 * state) a lookup answers as the table says and leaves such a state again */
void
h_cache_step(void)
{
#if defined BIGTAB
	mk_table();
#else
	MK_TABLE();
#endif
	ND(i64, vt0);
	ND(i64, vt);
	ND(u8, vcold);

	ASSUME(vt > -(1LL << 41) && vt < (1LL << 41));
	ASSUME(vt0 > -(1LL << 41) && vt0 < (1LL << 41));
	ASSUME(N == 0 || vt >= Z.trs[0]);
	if (vcold) {
		memset(&Z.z.cache, 0, sizeof(Z.z.cache));
	} else {
		/* the state a correct earlier lookup of T0 leaves behind */
		int k = ref_k(vt0);
		if (k < 0) {
			Z.z.cache.prev = STAMP_MIN;
			Z.z.cache.next = N ? Z.trs[0] : STAMP_MAX;
			Z.z.cache.trno = 0;
			Z.z.cache.offs = Z.ofs[Z.tys[0]];
		} else {
			Z.z.cache.prev = Z.trs[k];
			Z.z.cache.next = k + 1 < N ? Z.trs[k + 1] : STAMP_MAX;
			Z.z.cache.trno = k;
			Z.z.cache.offs = Z.ofs[Z.tys[k]];
		}
	}
#if defined KF_ONLY_tz_cold_negative
	ASSUME(vcold && vt < 0);
#elif defined KF_EXCL_tz_cold_negative
	ASSUME(!(vcold && vt < 0));
#endif
	CHECK(zif_local_time(&Z.z, vt) == vt + ref_offs(vt), "same answer whatever was looked up before");
#if N > 0
	CHECK(ref_zrng_p(Z.z.cache, vt), "the cache again holds the range of the instant just looked up");
#endif
	WITNESS();
}

/* C13(1b): two lookups on a fresh handle: whatever instant T0 was looked up
 * first (also one before the first transition), the second answer is the
 * table's.  The pre-state is produced by the real code, so this also guards
 * the invariant used in h_cache_step against being too optimistic. */
void
h_two_step(void)
{
#if defined BIGTAB
	mk_table();
#else
	MK_TABLE();
#endif
	ND(i64, vt0);
	ND(i64, vt);

	ASSUME(vt > -(1LL << 41) && vt < (1LL << 41));
	ASSUME(vt0 > -(1LL << 41) && vt0 < (1LL << 41));
	ASSUME(N == 0 || vt >= Z.trs[0]);
	memset(&Z.z.cache, 0, sizeof(Z.z.cache));
	(void)zif_local_time(&Z.z, vt0);
	CHECK(zif_local_time(&Z.z, vt) == vt + ref_offs(vt), "same answer whatever was looked up before");
	WITNESS();
}

/* C12(2): local -> UTC inverts UTC -> local where a preimage exists */
void
h_utc(void)
{
#if defined BIGTAB
	mk_table();
#else
	MK_TABLE();
#endif
	ND(i64, vl);
	ND(i64, vw);
	stamp_t u;

	ASSUME(vl > -(1LL << 41) && vl < (1LL << 41));
	ASSUME(vw > -(1LL << 41) && vw < (1LL << 41));
	/* some instant W at or after the first transition has local time L */
	ASSUME(N == 0 || vw >= Z.trs[0]);
	ASSUME(vw + ref_offs(vw) == vl);
	memset(&Z.z.cache, 0, sizeof(Z.z.cache));
	Z.z.cache.prev = STAMP_MAX;	/* force full searches: the cold-cache defect is C12(1)/C13's subject */
	u = zif_utc_time(&Z.z, vl);
	CHECK(u + ref_offs(u) == vl, "local -> UTC returns an instant whose local time is the given one");
	WITNESS();
}
