/* ref_selftest.c -- dumps the reference model for every day of the range so
 * that the runner can compare it with Python's datetime (an independent
 * proleptic-Gregorian/ISO implementation).  Plain gcc, concrete. */
#include <stdio.h>
#include "ref.h"

int
main(void)
{
	int n = 0;
	for (int y = REF_MIN_YEAR; y <= REF_MAX_YEAR; y++) {
		for (int m = 1; m <= 12; m++) {
			for (int d = 1; d <= ref_mdays(y, m); d++) {
				int cnt = 0, iy = 0, iw = 0;
				int dn = ref_days(y, m, d);
				int wd = ref_wday(dn);
				if (dn != ++n) {
					printf("BAD day number %d-%d-%d %d %d\n", y, m, d, dn, n);
					return 1;
				}
				for (int cy = y - 1; cy <= y + 1; cy++) {
					for (int cw = 1; cw <= 53; cw++) {
						if (ref_is_iso(dn, cy, cw, wd)) {
							cnt++, iy = cy, iw = cw;
						}
					}
				}
				if (cnt != 1) {
					printf("BAD iso solutions %d for %d-%d-%d\n", cnt, y, m, d);
					return 1;
				}
				printf("%d %d %d %d %d %d %d %d %d %d %d %d %d\n",
				       dn, y, m, d, wd, ref_yday(y, m, d), iy, iw,
				       ref_wk_sun(y, ref_yday(y, m, d)),
				       ref_wk_mon(y, ref_yday(y, m, d)),
				       ref_hang(iy), ref_isoweeks(iy),
				       ref_is_ymd(dn, y, m, d) && ref_is_yd(dn, y, ref_yday(y, m, d)));
			}
		}
	}
	return 0;
}
