/* C05 -- datediff is the inverse of dateadd
 * unit under test: lib/date-core.c (dt_ddiff and the per-calendar diff
 * kernels __ymd_diff, __yd_diff, __ywd_diff, __ymcw_diff, __daisy_diff;
 * dt_dadd_y/_m/_w/_d used to re-apply the result, largest unit first) */
#include "vf.h"
#include "ref.h"
#include "date-core.c"
#include "vfh_cal.h"

#if !defined YLO2
# define YLO2	YLO
# define YHI2	YHI
#endif
#if !defined REP
# define REP	R_YMD
#endif

#define ND_DAYB(r, p)							\
	ND(i32, p##y);							\
	ND(i32, p##m);							\
	ND(i32, p##d);							\
	ND(i32, p##iy);							\
	ND(i32, p##iw);							\
	struct refday r;						\
	ASSUME(p##y >= YLO2 && p##y <= YHI2);				\
	ASSUME(ref_valid_ymd(p##y, p##m, p##d));			\
	r.y = p##y, r.m = p##m, r.d = p##d;				\
	r.n = ref_days(p##y, p##m, p##d);				\
	r.doy = ref_yday(p##y, p##m, p##d);				\
	r.wd = ref_wday(r.n);						\
	ASSUME(p##iy >= p##y - 1 && p##iy <= p##y + 1 && p##iw >= 1 && p##iw <= 53); \
	ASSUME(ref_is_iso(r.n, p##iy, p##iw, r.wd));			\
	r.iy = p##iy, r.iw = p##iw

/* fixed-length units: days, in every representation */
void
h_diff_days(void)
{
	ND_DAY2(a, va);
	ND_DAYB(b, vb);
	struct dt_d_s x = mk_rep(REP, a);
	struct dt_d_s y = mk_rep(REP, b);
	struct dt_ddur_s d1 = dt_ddiff(DT_DURD, x, y, 0);
	struct dt_ddur_s d2 = dt_ddiff(DT_DURD, y, x, 0);

	CHECK(d1.dv == b.n - a.n, "difference in days is the difference of the day numbers");
	CHECK(d2.dv == -d1.dv, "swapping the operands flips the sign");
	WITNESS();
}

/* years, months, days: the earlier date has a day of month <= 28 */
void
h_diff_ymd(void)
{
	ND_DAY2(a, va);
	ND_DAYB(b, vb);
	struct dt_d_s x = mk_rep(R_YMD, a);
	struct dt_d_s y = mk_rep(R_YMD, b);
	struct dt_ddur_s d1, d2;
	struct dt_d_s t;

	ASSUME(a.n <= b.n && a.d <= 28);
	d1 = dt_ddiff(DT_DURYMD, x, y, 0);
	d2 = dt_ddiff(DT_DURYMD, y, x, 0);
	CHECK(d1.durtyp == DT_DURYMD && !d1.neg, "earlier first: non-negative ymd duration");
	CHECK(d1.ymd.m <= 11, "months < 12 under years");
	CHECK(d2.ymd.u == d1.ymd.u && (d2.neg == 1 || a.n == b.n), "swapped operands: same magnitude, sign flipped");
	/* largest unit first, with the real adders */
	t = dt_dadd_y(x, d1.ymd.y);
	t = dt_dadd_m(t, d1.ymd.m);
	t = dt_dfixup(t);
	t = dt_dadd_d(t, d1.ymd.d);
	CHECK(rep_days(t) == b.n, "earlier + years + months + days lands exactly on the later date");
	WITNESS();
}

/* years and days of year */
void
h_diff_yd(void)
{
	ND_DAY2(a, va);
	ND_DAYB(b, vb);
	struct dt_d_s x = mk_rep(R_YMD, a);
	struct dt_d_s y = mk_rep(R_YMD, b);
	struct dt_ddur_s d1, d2;
	struct dt_d_s t;

	ASSUME(a.n <= b.n && a.d <= 28);
	/* known finding yd_diff_leap_janfeb: earlier date in January/February
	 * of a leap year (ddiff 2000-01-19 2001-01-10 -f '%Yy %dd' says 356d) */
#if defined KF_ONLY_yd_diff_leap_janfeb
	ASSUME(ref_leap(a.y) && a.doy <= 59);
#elif defined KF_EXCL_yd_diff_leap_janfeb
	ASSUME(!(ref_leap(a.y) && a.doy <= 59));
#endif
	d1 = dt_ddiff(DT_DURYD, x, y, 0);
	d2 = dt_ddiff(DT_DURYD, y, x, 0);
	CHECK(d1.durtyp == DT_DURYD && !d1.neg, "earlier first: non-negative");
	CHECK(d2.yd.u == d1.yd.u && (d2.neg == 1 || a.n == b.n), "swapped operands: same magnitude, sign flipped");
	CHECK(d1.yd.d >= 0 && d1.yd.d <= 365, "days < one year under years");
	t = dt_dadd_y(x, d1.yd.y);
	t = dt_dfixup(t);
	t = dt_dadd_d(t, d1.yd.d);
	CHECK(rep_days(t) == b.n, "earlier + years + days lands exactly on the later date");
	WITNESS();
}

/* years, weeks, days in the ISO week calendar */
void
h_diff_ywd(void)
{
	ND_DAY2(a, va);
	ND_DAYB(b, vb);
	struct dt_d_s x = mk_rep(R_YWD, a);
	struct dt_d_s y = mk_rep(R_YWD, b);
	struct dt_ddur_s d1, d2;
	struct dt_d_s t;

	ASSUME(a.n <= b.n);
	/* known finding ywd_diff_week53: earlier date in ISO week 53
	 * (ddiff 1998-W53-6 2003-W01-4 -f '%Yy %ww %dd' says 4y 127w 5d) */
#if defined KF_ONLY_ywd_diff_week53
	ASSUME(a.iw == 53);
#elif defined KF_EXCL_ywd_diff_week53
	ASSUME(a.iw != 53);
#endif
	d1 = dt_ddiff(DT_DURYWD, x, y, 0);
	d2 = dt_ddiff(DT_DURYWD, y, x, 0);
	CHECK(d1.durtyp == DT_DURYWD && !d1.neg, "earlier first: non-negative");
	CHECK(d2.ywd.u == d1.ywd.u && (d2.neg == 1 || a.n == b.n), "swapped operands: same magnitude, sign flipped");
	CHECK(d1.ywd.w <= 6 && d1.ywd.c <= 53, "days < 7 under weeks, weeks within a year");
	t = dt_dadd_y(x, d1.ywd.y);
	t = dt_dfixup(t);
	t = dt_dadd_w(t, d1.ywd.c);
	t = dt_dadd_d(t, d1.ywd.w);
	CHECK(rep_days(t) == b.n, "earlier + years + weeks + days lands exactly on the later date");
	WITNESS();
}
