/* C02(2) -- Umm-al-Qura Hijri calendar round trip and consecutiveness over
 * the real month-begin table data/ummulqura.tab
 * unit under test: lib/date-core.c (includes lib/ummulqura.c) */
#include "vf.h"
#include "ref.h"
#include "date-core.c"
#include "vfh_cal.h"

#if !defined HLO
# define HLO	0
#endif
#if !defined HHI
# define HHI	7
#endif
#define NY	(sizeof(_bom) / sizeof(*_bom))

void
h_hijri(void)
{
	ND(u32, vldn);
	/* every day of Hijri years BASE+HLO .. BASE+HHI, except the very last
	 * month of the table whose length the table does not tell */
	ASSUME(HHI < NY);
	ASSUME(vldn >= _bom[HLO][0]);
	ASSUME(vldn < (HHI + 1 < NY ? _bom[HHI + 1][0] : _bom[HHI][11]));

	dt_ummulqura_t u = __ldn_to_ummulqura(vldn);
	dt_ummulqura_t v = __ldn_to_ummulqura(vldn + 1U);
	unsigned int yi = u.y - UMMULQURA_BASE;
	unsigned int mlen;

	CHECK(u.y >= UMMULQURA_BASE + HLO && u.y <= UMMULQURA_BASE + HHI, "Hijri year inside the window");
	CHECK(u.m >= 1 && u.m <= 12, "Hijri month valid");
	mlen = (u.m < 12 ? _bom[yi][u.m] : _bom[yi + 1][0]) - _bom[yi][u.m - 1];
	CHECK(mlen == 29 || mlen == 30, "table months have 29 or 30 days");
	CHECK(u.d >= 1 && u.d <= mlen, "Hijri day within the month's length");
	CHECK(__ummulqura_to_ldn(u) == vldn, "Hijri -> LDN inverts LDN -> Hijri");
	/* __ummulqura_fixup reads _bom[y][12] for month 12 (deliberate overrun
	 * into the next row); CBMC's array semantics cannot express that, so
	 * the paths through dt_dfixup are claimed for months 1..11 only */
	if (u.m < 12) {
		CHECK(__ummulqura_fixup(u).u == u.u, "valid Hijri dates are not altered by fixup");
	}
	/* consecutive days map to consecutive Hijri dates */
	if (u.d < mlen) {
		CHECK(v.y == u.y && v.m == u.m && v.d == u.d + 1U, "next day: same month, day + 1");
	} else if (u.m < 12) {
		CHECK(v.y == u.y && v.m == u.m + 1U && v.d == 1U, "next day: first of next month");
	} else {
		CHECK(v.y == u.y + 1U && v.m == 1U && v.d == 1U, "next day: first of next year");
	}
	/* through the public conversion, from and to a Gregorian date */
	{
		struct dt_d_s g;
		struct dt_d_s h;
		struct dt_d_s b;

		memset(&g, 0, sizeof(g));
		g.typ = DT_DAISY;
		g.daisy = vldn - REF_LDN_BASE;
		h = dt_dconv(DT_UMMULQURA, g);
		CHECK(h.typ == DT_UMMULQURA && h.ummulqura.u == u.u, "dt_dconv to Hijri");
		if (u.m < 12) {
			b = dt_dconv(DT_DAISY, h);
			CHECK(b.typ == DT_DAISY && b.daisy == g.daisy, "dt_dconv Hijri -> day number -> same day");
			b = dt_dconv(DT_YMD, h);
			CHECK(rep_days(b) == (int)g.daisy, "dt_dconv Hijri -> ymd is the same day");
		}
	}
	WITNESS();
}
