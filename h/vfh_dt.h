/* vfh_dt.h -- date-time helpers for harnesses over lib/dt-core.c
 * include after dt-core.c / dt-core.h, ref.h, vfh_cal.h */
#if !defined VFH_DT_H_
#define VFH_DT_H_

/* symbolic time of day */
#define ND_TOD(h, m, s, p)						\
	ND(u8, p##h);							\
	ND(u8, p##m);							\
	ND(u8, p##s);							\
	ASSUME(p##h <= 23);						\
	ASSUME(p##m <= 59);						\
	ASSUME(p##s <= 59);						\
	int h = p##h, m = p##m, s = p##s

static inline struct dt_dt_s
mk_dt(int rep, struct refday r, int h, int m, int s)
{
	struct dt_dt_s x;

	memset(&x, 0, sizeof(x));
	x.d = mk_rep(rep, r);
	x.t.hms.h = h;
	x.t.hms.m = m;
	x.t.hms.s = s;
	dt_make_sandwich(&x, (dt_dtyp_t)x.d.typ, DT_HMS);
	return x;
}

/* reference Unix seconds of a civil date-time */
static inline i64
ref_epoch(int n, int h, int m, int s)
{
	return ((i64)n - REF_UNIX_BASE) * 86400 + (h * 60 + m) * 60 + s;
}

/* difference of two civil instants in seconds, as the sum over the units of
 * (field difference x unit length); written in this expanded form because a
 * SAT back end cannot relate two differently associated Horner forms */
static inline i64
ref_delta(int n1, int h1, int m1, int s1, int n2, int h2, int m2, int s2)
{
	return (i64)(n2 - n1) * 86400 + (h2 - h1) * 3600 + (m2 - m1) * 60 + (s2 - s1);
}

/* the instant a date-time value denotes, via the reference only; the value
 * must be a valid sandwich: returns INT64_MIN otherwise */
static inline i64
dt_epoch_ref(struct dt_dt_s v)
{
	int n;

	if (!v.sandwich || v.t.hms.h > 24 || v.t.hms.m > 59 || v.t.hms.s > 60) {
		return INT64_MIN;
	}
	if ((n = rep_days(v.d)) < 0) {
		return INT64_MIN;
	}
	return ref_epoch(n, v.t.hms.h, v.t.hms.m, v.t.hms.s);
}

#endif	/* VFH_DT_H_ */
