/* C01(4) / C02(4,5) -- text of date specifiers: value, representation
 * independence, order independence.
 * unit under test: lib/date-core.c (dt_strfd, __strfd_card, prep functions),
 * lib/token.c (__tok_spec), lib/strops.c/.h; FMT is a concrete format */
#include "vf.h"
#include "ref.h"
#include "date-core.c"
#include "vfh_cal.h"

#if !defined FMT
# define FMT	"%F"
#endif
#if !defined FMT2
# define FMT2	"%d %j"
#endif
#if !defined REP
# define REP	R_YMD
#endif
#if !defined REP2
# define REP2	R_DAISY
#endif
/* what number the text must denote: selector */
#define V_NONE	0
#define V_Y	1
#define V_M	2
#define V_D	3
#define V_DOY	4
#define V_WD	5	/* 1..7 */
#define V_WD0	6	/* %w: mod 7 */
#define V_MC	7
#define V_YC	8	/* %C */
#define V_WU	9
#define V_WW	10
#define V_WV	11
#define V_IY	12
#define V_Q	13
#define V_Y2	14
#define V_IY2	15
#define V_Y1	16
#if !defined VAL
# define VAL	V_NONE
#endif

#define BSZ	24

static int
txt_num(const char *b, size_t n)
{
/* the decimal number in B[0..n), ignoring leading blanks and a leading Q;
 * -1 if there is anything else */
	int v = 0;
	size_t i = 0;
	int nd = 0;

	while (i < n && (b[i] == ' ' || b[i] == 'Q')) {
		i++;
	}
	for (; i < n; i++) {
		if (b[i] < '0' || b[i] > '9') {
			return -1;
		}
		v = v * 10 + (b[i] - '0');
		nd++;
	}
	return nd ? v : -1;
}

static int
ref_val(int what, struct refday r)
{
	switch (what) {
	case V_Y: return r.y;
	case V_M: return r.m;
	case V_D: return r.d;
	case V_DOY: return r.doy;
	case V_WD: return r.wd;
	case V_WD0: return r.wd % 7;
	case V_MC: return ref_mcount(r.d);
	case V_YC: return ref_wk_abs(r.doy);
	case V_WU: return ref_wk_sun(r.y, r.doy);
	case V_WW: return ref_wk_mon(r.y, r.doy);
	case V_WV: return r.iw;
	case V_IY: return r.iy;
	case V_Q: return ref_quarter(r.m);
	case V_Y2: return r.y % 100;
	case V_IY2: return r.iy % 100;
	case V_Y1: return r.y % 10;
	default: return -2;
	}
}

/* C01(4): the text printed for specifier FMT denotes the calendar's value,
 * whatever representation REP the day is held in */
void
h_strf_value(void)
{
	ND_DAY(r);
	struct dt_d_s v = mk_rep(REP, r);
	char buf[BSZ];
	size_t n = dt_strfd(buf, BSZ, FMT, v);
	int got;

	CHECK(n > 0 && n < BSZ, "something was printed, inside the buffer");
	got = txt_num(buf, n);
#if VAL == V_WD0
	CHECK(got >= 0 && got % 7 == ref_val(VAL, r), "text denotes the calendar's value");
#else
	CHECK(got == ref_val(VAL, r), "text denotes the calendar's value");
#endif
	WITNESS();
}

/* C02(4): same text whichever representation the value is held in */
void
h_strf_indep(void)
{
	ND_DAY(r);
	struct dt_d_s a = mk_rep(REP, r);
	struct dt_d_s b = mk_rep(REP2, r);
	char b1[BSZ];
	char b2[BSZ];
	size_t n1 = dt_strfd(b1, BSZ, FMT, a);
	size_t n2 = dt_strfd(b2, BSZ, FMT, b);
	int same = n1 == n2 && n1 < BSZ;

	for (size_t i = 0; i < BSZ; i++) {
		if (i < n1 && i < n2 && b1[i] != b2[i]) {
			same = 0;
		}
	}
	CHECK(n1 > 0, "specifier prints something");
	CHECK(same, "same text in both representations");
	WITNESS();
}

/* C02(5): the text of FMT does not depend on which specifiers precede it:
 * dt_strfd(FMT2 FMT) ends with dt_strfd(FMT) */
void
h_strf_order(void)
{
	ND_DAY(r);
	struct dt_d_s a = mk_rep(REP, r);
	char b1[BSZ];
	char b2[2 * BSZ];
	size_t n1 = dt_strfd(b1, BSZ, FMT, a);
	size_t n2 = dt_strfd(b2, 2 * BSZ, FMT2 FMT, a);
	int same = n2 >= n1 && n2 < 2 * BSZ && n1 < BSZ;

	for (size_t i = 0; i < BSZ; i++) {
		if (same && i < n1 && b1[i] != b2[n2 - n1 + i]) {
			same = 0;
		}
	}
	CHECK(same, "text of a specifier independent of its predecessors");
	WITNESS();
}
