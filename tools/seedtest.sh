#!/bin/bash
# usage: tools/seedtest.sh <seed dir with patch.diff demo.sh meta.json> <property id> [tier]
# Confirms a seeded change (compiles, suite passes, demo fails with / passes without) in a scratch
# copy of /repo, then runs the property's check against that patched copy (VERIF_REPO) and reports
# whether the check raised VIOLATION.  Nothing is applied to /repo itself.
set -u
SEED=$(realpath "$1"); ID=$2; TIER=${3:-quick}
W=$(mktemp -d /tmp/seedrepo.XXXXXX)
trap 'rm -rf "$W"' EXIT
rsync -a --exclude .git /repo/ "$W/"
grep -rlZ "/repo" --include=Makefile --include=config.status --include=libtool "$W" | xargs -0 sed -i "s#/repo#$W#g"
( cd "$W" && git init -q . >/dev/null 2>&1; true )
echo "== demo on unchanged tree"
bash "$SEED/demo.sh" /repo >/dev/null 2>&1; echo "demo(unchanged) rc=$?"
echo "== apply + build + suite"
( cd "$W" && patch -p1 -s < "$SEED/patch.diff" ) || { echo "PATCH FAILED"; exit 2; }
( cd "$W" && make -j16 >/dev/null 2>&1 ); echo "build rc=$?"
( cd "$W" && make -k check -j16 2>&1 | grep -E "^# (PASS|FAIL)" | tr '\n' ' ' ); echo
bash "$SEED/demo.sh" "$W" >/dev/null 2>&1; echo "demo(patched) rc=$?"
echo "== check $ID ($TIER) against the patched copy"
cd /verif
VERIF_REPO="$W" VERIF_NO_EVIDENCE=1 ./check "$ID" --tier "$TIER" > "/tmp/seedtest_$ID.log" 2>&1
rc=$?
echo "check rc=$rc"
grep -c "^VIOLATION" "/tmp/seedtest_$ID.log" | sed 's/^/violations: /'
grep "^VIOLATION\|obligation .* failed" "/tmp/seedtest_$ID.log" | head -6 | cut -c1-300
