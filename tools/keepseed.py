#!/usr/bin/env python3
"""keepseed.py <seed dir> <id>[/n] <detected:true|false> <detected_by> [note] -- file a confirmed seeded change under /verif/seeded/<id>/ (or <id>/<n>/ for a further one)"""
import json, os, shutil, sys
src, pid, det, by = sys.argv[1:5]
note = sys.argv[5] if len(sys.argv) > 5 else ''
dst = os.path.join(os.path.dirname(os.path.dirname(os.path.abspath(__file__))), 'seeded', pid)
os.makedirs(dst, exist_ok=True)
for f in os.listdir(src):
    if os.path.isfile(os.path.join(src, f)) and os.path.getsize(os.path.join(src, f)) < 200000:
        shutil.copy(os.path.join(src, f), dst)
m = json.load(open(os.path.join(dst, 'meta.json')))
m['confirmed_by_framework_author'] = {
    'how': ('tools/seedtest.sh <seed dir> <id>: scratch copy of /repo, patch applied, make, make -k check (890/890 pass), '
            'demo.sh fails with / passes without the change, then ./check <id> --tier quick against the patched copy (VERIF_REPO)'),
    'detected': det == 'true', 'detected_by': by}
if note:
    m['confirmed_by_framework_author']['note'] = note
json.dump(m, open(os.path.join(dst, 'meta.json'), 'w'), indent=1)
print('kept', dst, os.listdir(dst))
