#!/usr/bin/env python3
"""seedtable.py -- print the table of DESIGN.md section 8.7 from /verif/seeded/*/meta.json"""
import json, os
root = os.path.join(os.path.dirname(os.path.dirname(os.path.abspath(__file__))), 'seeded')
print('| seed | change (file: function) | caught by (quick tier) | check strengthened for it |')
print('|---|---|---|---|')
for pid in sorted(os.listdir(root)):
    dirs = [(pid, os.path.join(root, pid))]
    for sub in sorted(os.listdir(os.path.join(root, pid))):
        if os.path.isdir(os.path.join(root, pid, sub)):
            dirs.append(('%s/%s' % (pid, sub), os.path.join(root, pid, sub)))
    for name, d in dirs:
        m = json.load(open(os.path.join(d, 'meta.json')))
        c = m.get('confirmed_by_framework_author', {})
        summ = m.get('summary', '').replace('\n', ' ').replace('|', '/')
        summ = summ[:140] + ('...' if len(summ) > 140 else '')
        by = (c.get('detected_by') or pid).replace('|', '/').replace(' quick', '')
        note = c.get('note', '')
        st = 'yes: ' + note.replace('|', '/')[:220] if note and ('missed' in note or 'added' in note or 'not covered' in note or 'ENCODING' in note) else ('no' + (' (%s)' % note[:120] if note else ''))
        print('| %s | %s | %s | %s |' % (name, summ, by, st))
